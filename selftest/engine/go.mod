module enginetest

go 1.19
