//go:build verif

package enginetest

//@ autotag nopanic cases.go C91
//@ autotag lock cases.go C91
//@ autotag term cases.go C91
//@ autotag race cases.go C91
//@ autotag reach cases.go C91

//@ func okAddWrap
//@   ensures [C91.x] result == wrap32u(a + 1)
//@ func badAddNoWrap_ensures
//@   ensures [C91.x] result == a + 1
//@ func okDiv
//@   requires b != 0
//@ func badDiv_div
//@ func okNarrow
//@   ensures [C91.x] -2147483648 <= x && x <= 2147483647 ==> result == x
//@ func badNarrow_ensures
//@   ensures [C91.x] result == x
//@ func okSignedOverflow
//@   ensures [C91.x] result >= x
//@ func badSignedOverflow_ensures
//@   ensures [C91.x] result >= x
//@ func okShift
//@   ensures [C91.x] n >= 32 ==> result == 0

//@ func okIndex
//@   requires 0 <= i && i < len(s)
//@   ensures [C91.x] result == s[i]
//@ func badIndex_index
//@   requires 0 <= i && i <= len(s)
//@ func okFirstOrZero
//@   ensures [C91.x] len(s) > 0 ==> result == s[0]
//@ func badFirst_index
//@ func okMaxIndex
//@   requires len(a) > 0
//@   ensures [C91.x] 0 <= result && result < len(a) && (forall j, x in a :: x <= a[result])
//@   loop 1 invariant 0 <= best && best < len(a) && (forall j, x in a :: j <= $i ==> x <= a[best])
//@ func badMaxIndex_inv
//@   requires len(a) > 0
//@   ensures [C91.x] 0 <= result && result < len(a) && (forall j, x in a :: x <= a[result])
//@   loop 1 invariant 0 <= best && best < len(a) && (forall j, x in a :: j <= $i ==> x <= a[best])
//@ func okAppend
//@   ensures [C91.x] len(result) == len(s) + 1 && result[len(s)] == x && (forall j, y in s :: result[j] == y)
//@ func badAppendLen_ensures
//@   ensures [C91.x] len(result) == len(s)
//@ func okSubslice
//@   requires 0 <= n && n <= len(s)
//@   ensures [C91.x] len(result) == n
//@ func badSubslice_slice
//@   requires 0 <= n

//@ func okLookup
//@   ensures [C91.x] !(k in m) ==> result == 0
//@   ensures [C91.x] k in m ==> result == m[k]
//@ func okInsert
//@   requires m != nil
//@   ensures [C91.x] k in m && m[k] == 1 && (forall j string :: {j in m} j != k ==> (j in m) == old(j in m) && m[j] == old(m[j]))
//@   ensures [C91.x] len(m) == old(len(m)) + b2i(!old(k in m))
//@ func badInsertNil_nilmap
//@ func okDelete
//@   ensures [C91.x] !(k in m) && (forall j string :: {j in m} j != k ==> (j in m) == old(j in m))
//@ func badDeleteFrame_ensures
//@   ensures [C91.x] forall j string :: {j in m} (j in m) == old(j in m)
//@ func okCountKeys
//@   ensures [C91.x] result >= 0
//@   loop 1 invariant n >= 0

//@ func okSetA
//@   requires p != nil
//@   ensures [C91.x] p.a == v && p.b == old(p.b)
//@ func badSetA_nil
//@ func badSetAFrame_ensures
//@   requires p != nil
//@   ensures [C91.x] p.a == v && p.b == old(p.b)
//@ func okSwap
//@   requires p != nil
//@   ensures [C91.x] p.a == old(p.b) && p.b == old(p.a)
//@ func okAlias
//@   requires p != nil && q != nil
//@   ensures [C91.x] q.a == 2 && (p != q ==> p.a == 1)
//@ func badAlias_ensures
//@   requires p != nil && q != nil
//@   ensures [C91.x] p.a == 1
//@ func okNew
//@   ensures [C91.x] result != nil && result.a == 1 && result.b == 2

//@ protect counter.{n} guarded_by counter.mu
//@ racestrict counter
//@ inv counter.mu N0 [C91] := this.n >= 0
//@ func (c *counter) okInc
//@   requires c != nil
//@   ensures [C91.x] c.n >= old(c.n)
//@ func (c *counter) badDec_unlock
//@   requires c != nil
//@ func (c *counter) badNoUnlock_balanced
//@   requires c != nil
//@ func (c *counter) badDoubleLock_noreentry
//@   requires c != nil
//@ func (c *counter) badUnlocked_race
//@   requires c != nil
//@ func (c *counter) okGet
//@   requires c != nil
//@   ensures [C91.x] result >= 0

//@ func okCountDown
//@   ensures [C91.x] n >= 0 ==> result == n
//@   loop 1 invariant old(n) >= 0 ==> n >= 0 && s + n == old(n)
//@   loop 1 invariant old(n) < 0 ==> s == 0 && n == old(n)
//@   loop 1 decreases n
//@ func badNoVariant_decreases
//@   loop 1 decreases n
//@ func okFact
//@   decreases n
//@   ensures [C91.x] result == 1

//@ func okAssert
//@ func badAssert_assert
//@ func badNilIface_nilcall
//@ func okClosure
//@   ensures [C91.x] result == x
//@ func okClose
//@   requires c != nil && !closed(c)
//@ func badCloseTwice_close
//@   requires c != nil && !closed(c)

//@ func (c *counter) okCallee
//@   requires c != nil
//@   ensures [C91.x] c.n == 5
//@ func okCaller
//@   requires c != nil && p != nil
//@   ensures [C91.x] p.a == 7
//@ func badCallerForgets_ensures
//@   requires c != nil && p != nil
//@   ensures [C91.x] p.a == 7

// ---- cases2.go
//@ autotag nopanic cases2.go C91
//@ autotag lock cases2.go C91
//@ autotag term cases2.go C91
//@ autotag race cases2.go C91
//@ autotag reach cases2.go C91

//@ protect acct.{bal,deposit} guarded_by acct.mu
//@ racestrict acct
//@ inv acct.mu A0 [C91] := this.bal >= 0 && this.deposit >= 0
//@ mono acct.mu [C91] := this.deposit >= old(this.deposit)
//@ func (a *acct) okDeposit
//@   requires a != nil
//@   ensures [C91.x] a.bal >= old(a.bal)
//@ func (a *acct) badWithdraw_unlock
//@   requires a != nil
//@ func (a *acct) okTwoSections
//@   requires a != nil
//@   deadreturn 1
//@   ensures [C91.x] result == 0
//@ func (a *acct) badStaleRead_ensures
//@   requires a != nil
//@   ensures [C91.x] result == 0

//@ protect box.{v} guarded_by box.mu
//@ racestrict box
//@ inv box.mu B1 [C92] := this.v <= 10
//@ func (b *box) okSetEnv
//@   requires b != nil
//@   envassume [C92.assume-small] x <= 10
//@ func (b *box) okReadEnvSameProp
//@   requires b != nil
//@   ensures [C92.x] result <= 10
//@ func (b *box) badReadEnvOtherProp_ensures
//@   requires b != nil
//@   ensures [C91.x] result <= 10

//@ func okPrune
//@   ensures [C91.x] forall k, v in m :: v >= 0
//@   loop 1 invariant forall k, v in m :: $visited(k) ==> v >= 0
//@ func badPrune_ensures
//@   ensures [C91.x] forall k, v in m :: v >= 0
//@   loop 1 invariant forall k, v in m :: $visited(k) && k != "" ==> v >= 0
//@ func okUnion
//@   ensures [C91.x] forall n, l in lists :: (forall j, x in l :: x in result)
//@   loop 1 invariant forall n, l2 in lists :: $visited(n) ==> (forall j, x in l2 :: x in out)
//@   loop 2 invariant forall n, l2 in lists :: $visited(n, 1) && l2 != l ==> (forall j, x in l2 :: x in out)
//@   loop 2 invariant forall j, x in l :: j <= $i ==> x in out
//@ func badUnion_ensures
//@   ensures [C91.x] forall n, l in lists :: (forall j, x in l :: x in result)
//@   loop 1 invariant true
//@   loop 2 invariant true

//@ protect reg.{items,hits} guarded_by reg.mu
//@ racestrict reg
//@ inv reg.mu R0 [C91] := this.items != nil
//@ func (r *reg) size
//@   requires r != nil
//@   ensures [C91.x] result == len(r.items)
//@ func (r *reg) add
//@   requires r != nil
//@   ensures [C91.x] k in r.items
//@ func (r *reg) okAddIfRoom
//@   requires r != nil
//@   callsite add#1 asserts [C91.room] $call("size#1") < max
//@ func (r *reg) badAddAlways_callsite
//@   requires r != nil
//@   callsite add#1 asserts [C91.room] $call("size#1") < max
//@ func okCalleeFrame
//@   requires r != nil && p != nil
//@   ensures [C91.x] p.b == 3

//@ func okDeferOrder
//@   requires p != nil
//@   ensures [C91.x] p.a == 2
//@ func okSwitch
//@   ensures [C91.x] (x < 0 ==> result == -1) && (x == 0 ==> result == 0) && (x > 0 ==> result == 1)
//@ func okU32
//@   ensures [C91.x] 0 <= x && x <= 4294967295 ==> result == x
//@ func badU32_ensures
//@   ensures [C91.x] result == x
//@ func okCopy
//@   requires p != nil
//@   ensures [C91.x] result.a == 9 && result.b == p.b && p.a == old(p.a)
//@ func okBreak
//@   ensures [C91.x] result == -1 || (0 <= result && result < len(a) && a[result] == x)
//@   loop 1 invariant r == -1

//@ func enginetest.stepper.step (x) (y)
//@   ensures y >= x
//@ func okIface
//@   requires s != nil
//@   ensures [C91.x] result >= x
//@ func badIface_ensures
//@   requires s != nil
//@   ensures [C91.x] result >= x
//@ dyn field:hook.f (x) (y)
//@   ensures y == x
//@ func okDyn
//@   requires h != nil && h.f != nil
//@   ensures [C91.x] result == x
//@ func badDynNil_nilcall
//@   requires h != nil

// ---- cases3.go
//@ autotag nopanic cases3.go C91
//@ autotag lock cases3.go C91
//@ autotag term cases3.go C91
//@ autotag race cases3.go C91
//@ autotag reach cases3.go C91

//@ protect latch.{val} guarded_by latch.mu
//@ protect latch.{ready} immutable
//@ racestrict latch
//@ closeonly [C91] latch.ready
//@ guards latch.mu: chanclosed
//@ typeinv latch := this.ready != nil
//@ inv latch.mu L1 [C91] := closed(this.ready) == (this.val != 0)
//@ mono latch.mu [C91] := old(closed(this.ready)) ==> closed(this.ready)
//@ func (l *latch) okSet
//@   requires l != nil
//@ func (l *latch) badSetNoSignal_unlock
//@   requires l != nil
//@ func (l *latch) okGet
//@   requires l != nil
//@   ensures [C91.x] result != 0
//@ func (l *latch) okGetSelect
//@   requires l != nil && stop != nil
//@   ensures [C91.x] result != 0
//@ func (l *latch) badGetNoWait_ensures
//@   requires l != nil
//@   ensures [C91.x] result != 0

//@ ghost $pendingJobs map[*sched]int
//@ guards sched.mu: $pendingJobs
//@ protect sched.{wanted,counter} guarded_by sched.mu
//@ protect sched.{after} immutable
//@ racestrict sched
//@ typeinv sched := this.after != nil
//@ inv sched.mu J1 [C91] := $pendingJobs[this] >= 0 && (this.wanted ==> $pendingJobs[this] > 0)
//@ dyn field:sched.after (f)
//@   modifies nothing
//@ func (s *sched) okRequest
//@   requires s != nil
//@ func (s *sched) badRequestNoTimer_unlock
//@   requires s != nil
//@ func (s *sched) schedule
//@   inline
//@   callsite after#1 sets $pendingJobs := upd($pendingJobs, s, $pendingJobs[s] + 1)
//@ func (s *sched) schedule$1
//@   captures s != nil
//@   onacquire assume $pendingJobs[s] > 0
//@   onacquire $pendingJobs := upd($pendingJobs, s, $pendingJobs[s] - 1)
//@ func okMaxIndexCounting
//@   requires len(a) > 0
//@   ensures [C91.x] 0 <= result && result < len(a) && (forall j, x in a :: x <= a[result])
//@   loop 1 invariant 0 <= best && best < len(a) && 0 <= i && i <= len(a) && (forall j, x in a :: j <= $i ==> x <= a[best])
//@ func badMaxIndexCountingShort_ensures
//@   requires len(a) > 0
//@   ensures [C91.x] 0 <= result && result < len(a) && (forall j, x in a :: x <= a[result])
//@   loop 1 invariant 0 <= best && best < len(a) && 0 <= i && i <= len(a) && (forall j, x in a :: j <= $i ==> x <= a[best])
//@ func badCountingStalls_decreases
//@   loop 1 invariant 0 <= i
//@ func okCountingDown
//@ protect gauge.{level,limit} guarded_by gauge.mu
//@ racestrict gauge
//@ inv gauge.mu K1 [C92] := this.level <= this.limit
//@ globalinv startTimer != nil
//@ dyn global:startTimer(f)
//@   modifies nothing
//@ func (g *gauge) arm$1
//@   captures g != nil
//@ func badNewGaugeEarly_publish
//@   requires limit < 1000
//@ func badNewGaugeLate_guard
//@   requires limit < 1000
//@ func okNewGaugeLocked
//@   requires limit < 1000
//@ func okNewGaugeComplete
//@   requires limit < 1000
//@ protect tally.{count} guarded_by tally.mu
//@ racestrict tally
//@ inv tally.mu T1 [C92] := this.count >= 0
//@ func (t *tally) okBumpOld
//@   requires t != nil
//@   ensures [C92.x] t.count >= old(t.count)
//@ func (t *tally) badBumpEntry_ensures
//@   requires t != nil
//@   ensures [C92.x] t.count >= entry(t.count)
//@ func (t *tally) okNotesUnderLock
//@   requires t != nil
//@ func (t *tally) badNotesWithoutLock_undeclared
//@   requires t != nil
//@ func values
//@   ensures len(result) == 3 && result[0] == 1 && result[1] == 2 && result[2] == 3
//@ func okRangedSum
//@   ensures [C92.x] result == 3
//@   loop 1 invariant len($ranged(1)) == 3 && $ranged(1)[0] == 1 && $ranged(1)[1] == 2 && $ranged(1)[2] == 3 && s == $i + 1 && $i <= 2
//@ func badRangedSum_ensures
//@   ensures [C92.x] result == 3
//@   loop 1 invariant len($ranged(1)) == 3 && $ranged(1)[0] == 1 && $ranged(1)[1] == 2 && $ranged(1)[2] == 3 && s <= $i + 1 && $i <= 2
//@ protect once.{val} write_once once.mu
//@ racestrict once
//@ func (o *once) okSetOnce
//@   requires o != nil
//@ func (o *once) okReadAfterSeen
//@   requires o != nil
//@ func (o *once) badSetAfterRelease_writeonce
//@   requires o != nil
