package enginetest

import "sync"

// ---------------------------------------------------------------- lock invariants, two-state clauses, monotone facts

type acct struct {
	mu      sync.Mutex
	bal     int
	deposit int
}

func (a *acct) okDeposit(x int) {
	a.mu.Lock()
	defer a.mu.Unlock()
	if x > 0 && a.bal < 1000000 && x < 1000 && a.deposit < 1000000 {
		a.bal += x
		a.deposit++
	}
}

func (a *acct) badWithdraw_unlock(x int) {
	a.mu.Lock()
	defer a.mu.Unlock()
	a.bal -= x
}

func (a *acct) okTwoSections() int {
	a.mu.Lock()
	d1 := a.deposit
	a.mu.Unlock()
	a.mu.Lock()
	d2 := a.deposit
	a.mu.Unlock()
	if d2 < d1 {
		return 1
	}
	return 0
}

func (a *acct) badStaleRead_ensures() int {
	a.mu.Lock()
	b1 := a.bal
	a.mu.Unlock()
	a.mu.Lock()
	b2 := a.bal
	a.mu.Unlock()
	if b1 != b2 {
		return 1
	}
	return 0
}

// ---------------------------------------------------------------- environment assumptions are confined to their property

type box struct {
	mu sync.Mutex
	v  int
}

func (b *box) okSetEnv(x int) {
	b.mu.Lock()
	b.v = x
	b.mu.Unlock()
}

func (b *box) okReadEnvSameProp() int {
	b.mu.Lock()
	defer b.mu.Unlock()
	return b.v
}

func (b *box) badReadEnvOtherProp_ensures() int {
	b.mu.Lock()
	defer b.mu.Unlock()
	return b.v
}

// ---------------------------------------------------------------- map range with deletion, nested loops

func okPrune(m map[string]int) {
	for k, v := range m {
		if v < 0 {
			delete(m, k)
		}
	}
}

func badPrune_ensures(m map[string]int) {
	for k, v := range m {
		if v < 0 && k != "" {
			delete(m, k)
		}
	}
}

func okUnion(lists map[string][]string) map[string]bool {
	out := make(map[string]bool)
	for _, l := range lists {
		for _, x := range l {
			out[x] = true
		}
	}
	return out
}

func badUnion_ensures(lists map[string][]string) map[string]bool {
	out := make(map[string]bool)
	for _, l := range lists {
		for i, x := range l {
			if i > 0 {
				out[x] = true
			}
		}
	}
	return out
}

// ---------------------------------------------------------------- calls: contracts, frames, call sites, results

type reg struct {
	mu    sync.Mutex
	items map[string]int
	hits  int
}

func (r *reg) size() int {
	r.mu.Lock()
	defer r.mu.Unlock()
	return len(r.items)
}

func (r *reg) add(k string) {
	r.mu.Lock()
	defer r.mu.Unlock()
	r.items[k] = 1
}

func (r *reg) okAddIfRoom(k string, max int) bool {
	if r.size() < max {
		r.add(k)
		return true
	}
	return false
}

func (r *reg) badAddAlways_callsite(k string, max int) bool {
	_ = r.size()
	r.add(k)
	return true
}

func okCalleeFrame(r *reg, p *pair) {
	p.b = 3
	r.add("x")
}

// ---------------------------------------------------------------- defer order, switch, conversions, struct copies

func okDeferOrder(p *pair) {
	defer func() { p.a = 2 }()
	defer func() { p.a = 1 }()
}

func okSwitch(x int) int {
	switch {
	case x < 0:
		return -1
	case x == 0:
		return 0
	}
	return 1
}

func okU32(x int) uint32 { return uint32(x) }

func badU32_ensures(x int) uint32 { return uint32(x) }

func okCopy(p *pair) pair {
	q := *p
	q.a = 9
	return q
}

func okBreak(a []int, x int) int {
	r := -1
	for i, v := range a {
		if v == x {
			r = i
			break
		}
	}
	return r
}

// ---------------------------------------------------------------- function values and interfaces with contracts

type stepper interface{ step(x int) int }

func okIface(s stepper, x int) int { return s.step(x) }

func badIface_ensures(s stepper, x int) int { return s.step(x) + 1 }

type hook struct{ f func(int) int }

func okDyn(h *hook, x int) int { return h.f(x) }

func badDynNil_nilcall(h *hook, x int) int { return h.f(x) }
