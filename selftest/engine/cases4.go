package enginetest

import "sync"

// ---------------------------------------------------------------- entry(), $ranged, lock inference for undeclared fields

type tally struct {
	mu    sync.Mutex
	count int
	notes int // no protection declaration: its lock is inferred
}

// old() of a locking function is the state at its first acquire; entry() is the state at the call: what the lock
// guards may have been changed by other goroutines in between
func (t *tally) okBumpOld() {
	t.mu.Lock()
	defer t.mu.Unlock()
	if t.count < 1000 {
		t.count++
	}
}

func (t *tally) badBumpEntry_ensures() {
	t.mu.Lock()
	defer t.mu.Unlock()
	if t.count < 1000 {
		t.count++
	}
}

func (t *tally) okNotesUnderLock() {
	t.mu.Lock()
	t.notes++
	t.mu.Unlock()
}

func (t *tally) badNotesWithoutLock_undeclared() {
	t.mu.Lock()
	t.count++
	t.mu.Unlock()
	t.notes++
}

func values() []int { return []int{1, 2, 3} }

// the ranged slice has no name in the function: $ranged(1) denotes it
func okRangedSum() int {
	s := 0
	for _, v := range values() {
		if v > 0 {
			s++
		}
	}
	return s
}

func badRangedSum_ensures() int {
	s := 0
	for _, v := range values() {
		if v > 1 {
			s++
		}
	}
	return s
}

// a write_once field read as nil in one critical section may have been written by another holder before the next one
type once struct {
	mu  sync.Mutex
	val *int
}

func (o *once) okSetOnce(p *int) {
	o.mu.Lock()
	defer o.mu.Unlock()
	if o.val == nil {
		o.val = p
	}
}

func (o *once) okReadAfterSeen() int {
	o.mu.Lock()
	v := o.val
	o.mu.Unlock()
	if v == nil {
		return 0
	}
	o.mu.Lock()
	defer o.mu.Unlock()
	return *o.val // a written value stays: still non-nil
}

func (o *once) badSetAfterRelease_writeonce(p *int) {
	o.mu.Lock()
	v := o.val
	o.mu.Unlock()
	if v == nil {
		o.mu.Lock()
		o.val = p // somebody else may have set it between the two critical sections
		o.mu.Unlock()
	}
}
