package enginetest

import "sync"

// ---------------------------------------------------------------- close-only channels

type latch struct {
	mu    sync.Mutex
	ready chan struct{}
	val   int
}

func (l *latch) okSet(v int) {
	l.mu.Lock()
	l.val = v + 1
	if l.val == 0 {
		l.val = 1
	}
	select {
	case <-l.ready:
	default:
		close(l.ready)
	}
	l.mu.Unlock()
}

func (l *latch) badSetNoSignal_unlock(v int) {
	l.mu.Lock()
	l.val = 5
	l.mu.Unlock()
}

func (l *latch) okGet() int {
	<-l.ready
	l.mu.Lock()
	defer l.mu.Unlock()
	return l.val
}

func (l *latch) okGetSelect(stop chan struct{}) int {
	select {
	case <-l.ready:
	case <-stop:
		return -1
	}
	l.mu.Lock()
	defer l.mu.Unlock()
	return l.val
}

func (l *latch) badGetNoWait_ensures() int {
	l.mu.Lock()
	defer l.mu.Unlock()
	return l.val
}

// ---------------------------------------------------------------- ghost counters (callsite sets / onacquire)

type sched struct {
	mu      sync.Mutex
	wanted  bool
	after   func(f func())
	counter int
}

func (s *sched) okRequest() {
	s.mu.Lock()
	defer s.mu.Unlock()
	s.wanted = true
	s.schedule()
}

func (s *sched) badRequestNoTimer_unlock() {
	s.mu.Lock()
	defer s.mu.Unlock()
	s.wanted = true
}

func (s *sched) schedule() {
	s.after(func() {
		s.mu.Lock()
		defer s.mu.Unlock()
		s.wanted = false
		s.counter = 0
	})
}
