package enginetest

import "sync"

// ---------------------------------------------------------------- close-only channels

type latch struct {
	mu    sync.Mutex
	ready chan struct{}
	val   int
}

func (l *latch) okSet(v int) {
	l.mu.Lock()
	l.val = v + 1
	if l.val == 0 {
		l.val = 1
	}
	select {
	case <-l.ready:
	default:
		close(l.ready)
	}
	l.mu.Unlock()
}

func (l *latch) badSetNoSignal_unlock(v int) {
	l.mu.Lock()
	l.val = 5
	l.mu.Unlock()
}

func (l *latch) okGet() int {
	<-l.ready
	l.mu.Lock()
	defer l.mu.Unlock()
	return l.val
}

func (l *latch) okGetSelect(stop chan struct{}) int {
	select {
	case <-l.ready:
	case <-stop:
		return -1
	}
	l.mu.Lock()
	defer l.mu.Unlock()
	return l.val
}

func (l *latch) badGetNoWait_ensures() int {
	l.mu.Lock()
	defer l.mu.Unlock()
	return l.val
}

// ---------------------------------------------------------------- ghost counters (callsite sets / onacquire)

type sched struct {
	mu      sync.Mutex
	wanted  bool
	after   func(f func())
	counter int
}

func (s *sched) okRequest() {
	s.mu.Lock()
	defer s.mu.Unlock()
	s.wanted = true
	s.schedule()
}

func (s *sched) badRequestNoTimer_unlock() {
	s.mu.Lock()
	defer s.mu.Unlock()
	s.wanted = true
}

func (s *sched) schedule() {
	s.after(func() {
		s.mu.Lock()
		defer s.mu.Unlock()
		s.wanted = false
		s.counter = 0
	})
}

// counting loops: `$i` and the variant are read off `for i := 0; i < n; i++` when the contract gives neither
func okMaxIndexCounting(a []int) int {
	best := 0
	for i := 0; i < len(a); i++ {
		if a[i] > a[best] {
			best = i
		}
	}
	return best
}

func badMaxIndexCountingShort_ensures(a []int) int {
	best := 0
	for i := 0; i < len(a)-1; i++ {
		if a[i] > a[best] {
			best = i
		}
	}
	return best
}

func badCountingStalls_decreases(a []int) int {
	n := 0
	for i := 0; i < len(a); i++ {
		if a[i] == 7 {
			i--
		}
		n++
	}
	return n
}

func okCountingDown(n int) int {
	s := 0
	for k := n; k > 0; k -= 1 {
		s++
	}
	return s
}

// publication of an object under construction: a closure that captures it is handed to foreign code (a timer)
type gauge struct {
	mu    sync.Mutex
	level int
	limit int
}

var startTimer = func(f func()) {}

func (g *gauge) arm() {
	startTimer(func() {
		g.mu.Lock()
		defer g.mu.Unlock()
		g.level = g.limit
	})
}

// the timer is armed before the invariant (level <= limit) holds and the fields are written without the lock afterwards
func badNewGaugeEarly_publish(limit int) *gauge {
	g := &gauge{level: limit + 1}
	g.arm()
	g.limit = limit + 1
	return g
}

// the same constructor writes a guarded field after the object was handed out
func badNewGaugeLate_guard(limit int) *gauge {
	g := &gauge{level: limit, limit: limit}
	g.arm()
	g.level = 0
	return g
}

// holding the object's own lock while it is built is enough: the callback cannot run before the release
func okNewGaugeLocked(limit int) *gauge {
	g := &gauge{level: limit + 1}
	g.mu.Lock()
	defer g.mu.Unlock()
	g.arm()
	g.limit = limit + 1
	return g
}

// and so is arming the timer only when the object is complete
func okNewGaugeComplete(limit int) *gauge {
	g := &gauge{level: limit, limit: limit}
	g.arm()
	return g
}
