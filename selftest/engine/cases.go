// Package enginetest is the conformance suite of the gocv verifier: small functions, one language feature each.
// A function named okX must verify completely; a function named badX_<word> must have at least one failing
// obligation whose name contains <word> (and must not merely fail to bind). Run: gocv selftest.
package enginetest

import "sync"

// ---------------------------------------------------------------- integers

func okAddWrap(a uint32) uint32 { return a + 1 }

func badAddNoWrap_ensures(a uint32) uint32 { return a + 1 }

func okDiv(a, b int) int { return a / b }

func badDiv_div(a, b int) int { return a / b }

func okNarrow(x int64) int32 { return int32(x) }

func badNarrow_ensures(x int64) int32 { return int32(x) }

func okSignedOverflow(x int32) int32 {
	if x == 2147483647 {
		return x
	}
	return x + 1
}

func badSignedOverflow_ensures(x int32) int32 { return x + 1 }

func okShift(x uint32, n uint) uint32 { return x << n }

// ---------------------------------------------------------------- slices

func okIndex(s []int, i int) int { return s[i] }

func badIndex_index(s []int, i int) int { return s[i] }

func okFirstOrZero(s []int) int {
	if len(s) == 0 {
		return 0
	}
	return s[0]
}

func badFirst_index(s []int) int { return s[0] }

func okMaxIndex(a []int) int {
	best := 0
	for i := range a {
		if a[i] > a[best] {
			best = i
		}
	}
	return best
}

func badMaxIndex_inv(a []int) int {
	best := 0
	for i := range a {
		if a[i] >= a[best] {
			best = i + 1 - 1
		}
		if i == 3 {
			best = 0
		}
	}
	return best
}

func okAppend(s []int, x int) []int { return append(s, x) }

func badAppendLen_ensures(s []int, x int) []int { return append(s, x) }

func okSubslice(s []int, n int) []int { return s[:n] }

func badSubslice_slice(s []int, n int) []int { return s[:n] }

// ---------------------------------------------------------------- maps

func okLookup(m map[string]int, k string) int { return m[k] }

func okInsert(m map[string]int, k string) { m[k] = 1 }

func badInsertNil_nilmap(m map[string]int, k string) { m[k] = 1 }

func okDelete(m map[string]int, k string) { delete(m, k) }

func badDeleteFrame_ensures(m map[string]int, k string) { delete(m, k) }

func okCountKeys(m map[string]int) int {
	n := 0
	for range m {
		if n < 1000 {
			n++
		}
	}
	return n
}

// ---------------------------------------------------------------- pointers and structs

type pair struct{ a, b int }

func okSetA(p *pair, v int) { p.a = v }

func badSetA_nil(p *pair, v int) { p.a = v }

func badSetAFrame_ensures(p *pair, v int) { p.a = v; p.b = v }

func okSwap(p *pair) { p.a, p.b = p.b, p.a }

func okAlias(p, q *pair) {
	p.a = 1
	q.a = 2
}

func badAlias_ensures(p, q *pair) {
	p.a = 1
	q.a = 2
}

func okNew() *pair { return &pair{a: 1, b: 2} }

// ---------------------------------------------------------------- locks

type counter struct {
	mu sync.Mutex
	n  int
}

func (c *counter) okInc() {
	c.mu.Lock()
	defer c.mu.Unlock()
	if c.n < 1000 {
		c.n++
	}
}

func (c *counter) badDec_unlock() {
	c.mu.Lock()
	defer c.mu.Unlock()
	c.n--
}

func (c *counter) badNoUnlock_balanced() {
	c.mu.Lock()
	c.n = 0
}

func (c *counter) badDoubleLock_noreentry() {
	c.mu.Lock()
	c.mu.Lock()
	c.mu.Unlock()
	c.mu.Unlock()
}

func (c *counter) badUnlocked_race() int { return c.n }

func (c *counter) okGet() int {
	c.mu.Lock()
	defer c.mu.Unlock()
	return c.n
}

// ---------------------------------------------------------------- termination

func okCountDown(n int) int {
	s := 0
	for n > 0 {
		s++
		n--
	}
	return s
}

func badNoVariant_decreases(n int) int {
	for n != 0 {
		n -= 2
	}
	return n
}

func okFact(n int) int {
	if n <= 0 {
		return 1
	}
	return okFact(n - 1)
}

// ---------------------------------------------------------------- interfaces, closures, channels

type shape interface{ area() int }
type sq struct{ s int }

func (q sq) area() int { return q.s * q.s }

func okAssert(x interface{}) int {
	if v, ok := x.(int); ok {
		return v
	}
	return 0
}

func badAssert_assert(x interface{}) int { return x.(int) }

func badNilIface_nilcall(s shape) int { return s.area() }

func okClosure(x int) int {
	f := func(y int) int { return x + y }
	return f(1) - 1
}

func okClose(c chan int) { close(c) }

func badCloseTwice_close(c chan int) {
	close(c)
	close(c)
}

// ---------------------------------------------------------------- two-state and frames across calls

func (c *counter) okCallee() {
	c.mu.Lock()
	c.n = 5
	c.mu.Unlock()
}

func okCaller(c *counter, p *pair) {
	p.a = 7
	c.okCallee()
}

func badCallerForgets_ensures(c *counter, p *pair) {
	p.a = 7
	c.okCallee()
	p.a = 8
}
