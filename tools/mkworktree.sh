#!/bin/bash
# usage: mkworktree.sh <prop>  -- scratch worktree of /repo at HEAD under /tmp/seed/<prop>, with the verif contract files hidden
set -e
p=$1; wt=/tmp/seed/$p
git -C /repo worktree add -q --detach $wt HEAD
cd $wt
for f in $(git ls-files | grep 'zz_contracts_verif.go$'); do git update-index --skip-worktree $f; rm -f $f; done
mkdir -p out
git status --short | head -3
echo "worktree $wt ready"
