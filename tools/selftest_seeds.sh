#!/bin/bash
# Must-fail corpus: every confirmed seeded change under /verif/seeded must be reported by the check of its property.
# usage: selftest_seeds.sh [pattern]     exit 0 iff every seed is detected
cd /verif
fail=0
for d in /verif/seeded/${1:-C*}/; do
  id=$(basename $d); p=${id%-*}
  grep -q '"obsolete"' $d/meta.json 2>/dev/null && { echo "skipped  $id (obsolete, see meta.json)"; continue; }
  patch=$d/patch.diff; [ -f $d/patch_adapted.diff ] && patch=$d/patch_adapted.diff
  out=$(tools/detect_seed.sh $patch $p 2>&1)
  if echo "$out" | grep -q "patch failed"; then echo "skipped  $id (patch does not apply to the current tree)"; elif echo "$out" | grep -q VIOLATION; then echo "detected $id ($(echo "$out" | grep -c VIOLATION) obligations)"; else echo "MISSED   $id: $(echo "$out" | tail -1)"; fail=1; fi
done
exit $fail
