#!/bin/bash
# Must-pass corpus: every check must stay silent on the behaviour-preserving edits in /verif/selftest/benign/*.diff
# (each patch is checked against the properties of the modules it touches; usage: selftest_benign.sh [patch...])
cd /verif; rc=0
G="C01 C02 C03 C04 C05 C06 C07 C08 C09 C10 C11 C12 C13 C14 C15 C16 C17 C20"
files=${@:-selftest/benign/*.diff}
for d in $files; do
  props=""
  grep -q '^+++ b/grpcgcp/' $d && props="$props $G"
  grep -q '^+++ b/spanner_prober/' $d && props="$props C18"
  grep -q '^+++ b/e2e-checksum/' $d && props="$props C19"
  out=$(tools/detect_seed.sh /verif/$d $props 2>&1)
  n=$(echo "$out" | grep -c VIOLATION)
  if echo "$out" | grep -q "patch failed"; then echo "DOES NOT APPLY $d (re-express it on the current tree)"; rc=1
  elif [ "$n" != 0 ]; then echo "FALSE ALARM $d: $(echo "$out" | grep VIOLATION | head -3 | cut -c1-200)"; rc=1; else echo "silent $d ($(echo $props | wc -w) properties)"; fi
done
exit $rc
