#!/bin/bash
# Must-pass corpus: every check must stay silent on the behaviour-preserving edits in /verif/selftest/benign/*.diff
cd /verif; rc=0
for d in selftest/benign/*.diff; do
  for p in $(python3 -c "import json;[print(json.loads(l)['id']) for l in open('/verif/properties.jsonl')]"); do
    out=$(tools/detect_seed.sh /verif/$d $p 2>&1)
    if echo "$out" | grep -q "VIOLATION"; then echo "FALSE ALARM $d $p: $(echo "$out" | grep VIOLATION | head -2 | cut -c1-200)"; rc=1; else echo "silent $d $p"; fi
  done
done
exit $rc
