#!/bin/bash
# usage: confirm_seed.sh <prop> <n> [suite]  -- confirm a seeded change in its scratch worktree:
#  demo passes on the unmodified tree, patch applies and builds, demo fails with it, (optionally) the suite passes.
export GOFLAGS=-mod=mod GOPROXY=off GOSUMDB=off GOTOOLCHAIN=local
p=$1; n=$2; wt=/tmp/seed/$p; out=$wt/out/$n
cd $wt || exit 2
git checkout -q -- . ; git clean -qfd -e out
# where does the demo go? multiendpoint demos go to grpcgcp/multiendpoint, others to grpcgcp
dir=grpcgcp; case $p in C13|C14) dir=grpcgcp/multiendpoint;; esac
cp $out/zz_demo*_test.go $wt/$dir/
pkg=./${dir#grpcgcp}; [ "$pkg" = "./" ] && pkg=.
runx='ZZDemo|TestDemo|TestZZ'
echo "== $p/$n demo on unmodified tree"
(cd grpcgcp && timeout 300 go test -vet=off -count=1 -timeout 120s -run "$runx" $pkg 2>&1 | tail -3); r0=${PIPESTATUS[0]}
git apply $out/patch.diff || { echo "PATCH DOES NOT APPLY"; exit 3; }
(cd grpcgcp && go build ./... ) || { echo "BUILD FAILS"; exit 4; }
echo "== $p/$n demo with the change"
(cd grpcgcp && timeout 300 go test -vet=off -count=1 -timeout 120s -run "$runx" $pkg 2>&1 | tail -4)
if [ "$3" = suite ]; then
  echo "== $p/$n full suite with the change (demo removed)"
  rm -f $wt/$dir/zz_demo*_test.go
  for try in 1 2 3; do
    (cd grpcgcp && go test -vet=off -count=1 ./... 2>&1 | tail -4) > /tmp/seed/suite_$p_$n.log 2>&1
    cat /tmp/seed/suite_$p_$n.log
    grep -q "address already in use\|connection refused" /tmp/seed/suite_$p_$n.log || break
    sleep 5
  done
fi
git checkout -q -- . ; git clean -qfd -e out
