#!/bin/bash
# usage: confirm_seed3.sh <prop> <n> [suite] -- generalised confirm (demo dir / flags per seed)
export GOFLAGS=-mod=mod GOPROXY=off GOSUMDB=off GOTOOLCHAIN=local
p=$1; n=$2; wt=/tmp/seed/$p; out=$wt/out/$n
cd $wt || exit 2
git checkout -q -- . ; git clean -qfd -e out
mod=grpcgcp; dir=grpcgcp; flags=""; pkg2=""; pkg3=""
case $p/$n in
 C10/2) dir=grpcgcp; flags=-race;;
 C10/3) dir=grpcgcp/multiendpoint; flags=-race;;
 C13/*|C14/*) dir=grpcgcp/multiendpoint;;
 C10/*|C09/1|C09/2) flags=-race;;
 C18/3) mod=spanner_prober; dir=spanner_prober;;
 C18/*) mod=spanner_prober; dir=spanner_prober/prober;;
 C19/*) mod=e2e-checksum; dir=e2e-checksum;;
esac
cp $out/zz_demo*_test.go $wt/$dir/ 2>/dev/null || cp $out/*_test.go $wt/$dir/
# demos that span two packages
if [ -f $out/zz_demo_me_test.go ]; then rm -f $wt/$dir/zz_demo_me_test.go; cp $out/zz_demo_me_test.go $wt/grpcgcp/multiendpoint/; pkg3=./multiendpoint; fi
if [ -f $out/zz_demo_main_test.go ]; then rm -f $wt/$dir/zz_demo_test.go; cp $out/zz_demo_test.go $wt/spanner_prober/prober/; pkg2=./prober; fi
pkg=./${dir#$mod}; pkg=${pkg%/}; [ "$pkg" = "." ] || pkg=./${dir#$mod/}; [ "$dir" = "$mod" ] && pkg=.
runx='Demo|TestZZ'
echo "== $p/$n demo on unmodified tree ($dir $flags)"
(cd $mod && timeout 600 go test $flags -vet=off -count=1 -timeout 300s -run "$runx" $pkg $pkg2 $pkg3 2>&1 | tail -3)
git apply $out/patch.diff || { echo "PATCH DOES NOT APPLY"; exit 3; }
(cd $mod && go build -o /dev/null ./... ) || { echo "BUILD FAILS"; exit 4; }
echo "== $p/$n demo with the change"
(cd $mod && timeout 600 go test $flags -vet=off -count=1 -timeout 300s -run "$runx" $pkg $pkg2 $pkg3 2>&1 | grep -E "^(ok|FAIL|---|panic|WARNING: DATA RACE)" | sort | uniq -c | head -8)
if [ "$3" = suite ]; then
  echo "== $p/$n full suite with the change (demo removed)"
  rm -f $wt/$dir/zz_*_test.go $wt/grpcgcp/multiendpoint/zz_*_test.go $wt/spanner_prober/prober/zz_*_test.go
  for try in 1 2 3; do
    (cd $mod && go test -vet=off -count=1 ./... 2>&1 | grep -E "^(ok|FAIL|---|panic)|address already|refused" | head -8) > /tmp/seed/suite_cur.log 2>&1
    cat /tmp/seed/suite_cur.log
    grep -q "FAIL" /tmp/seed/suite_cur.log || break
    [ $mod = grpcgcp ] || break
    sleep 3
  done
fi
git checkout -q -- . ; git clean -qfd -e out
