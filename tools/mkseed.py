#!/usr/bin/env python3
"""usage: mkseed.py <batch-label> <prop>...  -- store the confirmed sub-agent changes /tmp/seed/<prop>/out/{1,2,3} as
/verif/seeded/<prop>-<next index>/ (patch.diff, demo, notes, logs, meta.json with the detection result of the current checks).
Optional /tmp/seed/history.json: {"C07/1": "missed at first ...", ...}"""
import json, os, subprocess, shutil, re, sys
label = sys.argv[1]; props = sys.argv[2:]
hist = json.load(open('/tmp/seed/history.json')) if os.path.exists('/tmp/seed/history.json') else {}
for p in props:
    have = [int(d.split('-')[1]) for d in os.listdir('/verif/seeded') if d.startswith(p + '-')]
    base = max(have) if have else 0
    for n in '123':
        src = f'/tmp/seed/{p}/out/{n}'
        if not os.path.isdir(src): continue
        idx = base + int(n); dst = f'/verif/seeded/{p}-{idx}'
        os.makedirs(dst, exist_ok=True)
        for f in os.listdir(src):
            if os.path.isfile(os.path.join(src, f)): shutil.copy(os.path.join(src, f), dst)
        patch = 'patch_adapted.diff' if os.path.exists(f'{dst}/patch_adapted.diff') else 'patch.diff'
        out = subprocess.run(['/verif/tools/detect_seed.sh', f'{dst}/{patch}', p], capture_output=True, text=True).stdout
        obs = sorted(set(re.findall(r'obligation=(\S+)', out)))
        det = 'VIOLATION' in out
        notes = open(dst + '/notes.md').read() if os.path.exists(dst + '/notes.md') else ''
        m = re.search(r'(?is)(what is needed|needs)[^\n]*\n+(.*?)(\n#|\Z)', notes)
        need = ' '.join((m.group(2) if m else '').split())[:400]
        meta = {'property': p, 'needs_to_manifest': need,
                'origin': 'written by an independent sub-agent that saw only the property text and a scratch worktree of /repo (no access to /verif or the contracts); ' + label,
                'confirmed': f'tools/confirm_seed4.sh {p} {n} suite (logs: seeded/_logs/confirm10*.log): demo passes on the unmodified tree, patch applies and builds, demo fails with the patch, full grpcgcp suite passes with the patch (re-run when the fixed test port was busy or a timing test flaked under load)',
                'checked_with': f'tools/detect_seed.sh seeded/{p}-{idx}/{patch} {p} (scratch copy of /repo with the patch applied, gocv check -prop {p} -tier quick)',
                'detected': det, 'failing_obligations': obs}
        if f'{p}/{n}' in hist: meta['history'] = hist[f'{p}/{n}']
        if patch == 'patch_adapted.diff': meta['adapted'] = 'patch.diff is the change against the tree the sub-agent was given; a later fix moved the code it touches, patch_adapted.diff is the same change re-expressed on the current tree (re-confirmed: demo fails with it)'
        json.dump(meta, open(dst + '/meta.json', 'w'), indent=1)
        print(f'{p}-{idx}', det, len(obs))
