#!/bin/bash
# usage: detect_seed.sh <patch.diff> <prop> [more props...]  -- run the property checks on a scratch copy of /repo with the patch applied
export GOFLAGS=-mod=mod GOPROXY=off GOSUMDB=off GOTOOLCHAIN=local
patch=$1; shift
d=$(mktemp -d /tmp/det.XXXXXX); trap 'rm -rf $d' EXIT
mkdir -p $d/repo
for m in grpcgcp spanner_prober e2e-checksum; do cp -r /repo/$m $d/repo/$m; done
(cd $d/repo && patch -p1 -s < $patch) || { echo "patch failed"; exit 2; }
for p in "$@"; do
  GOCV_REPO=$d/repo GOCV_OUT=$d /verif/bin/gocv check -prop $p -tier quick 2>&1 | grep -E "VIOLATION|KNOWN|^property=" | cut -c1-260
done
