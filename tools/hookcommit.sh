#!/bin/bash
# usage: hookcommit.sh "<message>"  -- commits only the comment-only contract files
set -e
cd /repo
git add $(git ls-files -m -o --exclude-standard | grep 'zz_contracts_verif.go$' || true) 2>/dev/null || true
if git diff --cached --quiet; then echo "no contract changes"; exit 0; fi
git commit -q -m "verif hook: $1"
git log -1 --format='%h %s'
