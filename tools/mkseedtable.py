#!/usr/bin/env python3
"""Regenerates the table of seeded changes in DESIGN.md section 0.5 from /verif/seeded/*/meta.json."""
import json, os, re
rows = []
def key(d):
    p, n = d.split('-'); return (p, int(n))
dirs = sorted([d for d in os.listdir('/verif/seeded') if re.match(r'C\d+-\d+$', d)], key=key)
for d in dirs:
    m = json.load(open(f'/verif/seeded/{d}/meta.json'))
    obs = [o for o in m.get('failing_obligations', [])]
    short = '; '.join(re.sub(r'^\(\*?\w+\)\.', '', o) for o in obs[:2])
    res = 'obsolete (was detected)' if m.get('obsolete') else ('detected' if m.get('detected') else 'NOT detected')
    rows.append(f"| {d} | {res} | `{short}` | {m.get('history','')} |")
s = open('/verif/DESIGN.md').read()
a = s.index('| seed | result | failing obligations (first two) | history |')
b = s.index('\n\n', a)
s = s[:a] + '| seed | result | failing obligations (first two) | history |\n|---|---|---|---|\n' + '\n'.join(rows) + s[b:]
open('/verif/DESIGN.md', 'w').write(s)
print(len(rows), 'rows;', sum('| detected |' in r for r in rows), 'detected')
