#!/bin/bash
# usage: fixcommit.sh "<message starting with fix:>" file...   (paths relative to /repo; never the contract files)
set -e
msg=$1; shift
case "$msg" in fix:*) ;; *) echo "message must start with fix:"; exit 2;; esac
cd /repo
for f in "$@"; do case "$f" in *zz_contracts_verif.go) echo "contract file in a fix commit"; exit 2;; esac; git add "$f"; done
git commit -q -m "$msg"
git log -1 --format='%h %s'
