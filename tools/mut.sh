#!/bin/bash
# usage: mut.sh <module-subdir> <file> <sed-expr> <gocv args...>   -- run gocv on a scratch copy with one sed edit
set -e
sub=$1; file=$2; expr=$3; shift 3
d=$(mktemp -d /tmp/mut.XXXXXX)
trap 'rm -rf $d' EXIT
mkdir -p $d/repo
cp -r /repo/$sub $d/repo/$sub
sed -i "$expr" $d/repo/$sub/$file
if diff -q /repo/$sub/$file $d/repo/$sub/$file >/dev/null; then echo "MUTATION DID NOT APPLY"; exit 3; fi
GOCV_REPO=$d/repo /verif/bin/gocv "$@"
