#!/usr/bin/env python3
"""usage: mkprompt.py <prop>...  -- writes /tmp/seed/prompts/<prop>.txt from seeded/_prompts (template of the property's module + steer)"""
import json, re, sys
props = {json.loads(l)['id']: json.loads(l) for l in open('/verif/properties.jsonl')}
steer = open('/verif/seeded/_prompts/steer_round6.txt').read()
for p in sys.argv[1:]:
    t = 'prober' if p == 'C18' else 'checksum' if p == 'C19' else 'grpcgcp'
    s = open(f'/verif/seeded/_prompts/template_{t}.txt').read()
    old = {'grpcgcp': 'C09', 'prober': 'C18', 'checksum': 'C19'}[t]
    s = re.sub(r'  Title: .*\n', lambda m: '  Title: ' + props[p]['title'] + '\n', s, count=1)
    s = re.sub(r'  Statement: .*\n', lambda m: '  Statement: ' + props[p]['statement'] + '\n', s, count=1)
    s = s.replace(old, p)
    open(f'/tmp/seed/prompts/{p}.txt', 'w').write(s + '\n\n' + steer)
    print(p, len(s))
