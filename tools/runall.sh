#!/bin/bash
# runs every property's quick check; prints one line per property; exit 1 if any check exits non-zero
cd /verif; rc=0
for p in $(python3 -c "import json;[print(json.loads(l)['id']) for l in open('/verif/properties.jsonl')]"); do
  ./check.sh $p ${1:-quick} > /tmp/chk_$p.log 2>&1; r=$?
  echo "$p exit=$r $(tail -1 /tmp/chk_$p.log)"; [ $r = 0 ] || { rc=1; grep VIOLATION /tmp/chk_$p.log | cut -c1-240 | head -5; }
done
exit $rc
