#!/bin/bash
# Canaries: the reverse of every fix: commit that still applies to the current tree (selftest/canaries/<commit>.diff) must be
# reported by the check of every property that known_findings.txt records for that commit ("fixed: property=<id> <commit>").
cd /verif; rc=0
for d in selftest/canaries/*.diff; do
  h=$(basename $d .diff)
  props=$(grep "^fixed:" known_findings.txt | grep " $h " | sed 's/.*property=\([A-Z0-9]*\).*/\1/' | sort -u | tr '\n' ' ')
  [ -z "$props" ] && { echo "no-record $h (no fixed: line names this commit)"; continue; }
  for p in $props; do
    out=$(tools/detect_seed.sh /verif/$d $p 2>&1)
    if echo "$out" | grep -q "patch failed"; then echo "skipped  $h $p (does not apply any more)"
    elif echo "$out" | grep -q VIOLATION; then echo "reported $h $p ($(echo "$out" | grep -c VIOLATION) obligations: $(echo "$out" | grep -o 'obligation=[^ ]*' | head -1))"
    else echo "SILENT   $h $p"; rc=1; fi
  done
done
exit $rc
