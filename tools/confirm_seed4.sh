#!/bin/bash
# usage: [SEED_FLAGS=-race] [SEED_DIR=grpcgcp/multiendpoint] confirm_seed4.sh <prop> <n> [suite]
# Confirms a sub-agent change /tmp/seed/<prop>/out/<n> in the sub-agent's scratch worktree /tmp/seed/<prop>:
# demo passes on the unmodified tree, patch applies and builds, demo fails with it, full suite of the module passes with it.
# (confirm_seed3.sh without the per-seed special cases of the earlier batches; the demo directory defaults by property.)
export GOFLAGS=-mod=mod GOPROXY=off GOSUMDB=off GOTOOLCHAIN=local
p=$1; n=$2; wt=/tmp/seed/$p; out=$wt/out/$n
cd $wt || exit 2
git checkout -q -- . ; git clean -qfd -e out
mod=grpcgcp; dir=grpcgcp; flags="$SEED_FLAGS"
case $p in
 C13|C14) dir=grpcgcp/multiendpoint;;
 C18) mod=spanner_prober; dir=spanner_prober/prober;;
 C19) mod=e2e-checksum; dir=e2e-checksum;;
esac
[ -n "$SEED_DIR" ] && dir=$SEED_DIR
cp $out/*_test.go $wt/$dir/
pkg=./${dir#$mod/}; [ "$dir" = "$mod" ] && pkg=.
runx='Demo|TestZZ'
echo "== $p/$n demo on unmodified tree ($dir $flags)"
(cd $mod && timeout 600 go test $flags -vet=off -count=1 -timeout 300s -run "$runx" $pkg 2>&1 | tail -3)
git apply $out/patch.diff || { echo "PATCH DOES NOT APPLY"; exit 3; }
(cd $mod && go build -o /dev/null ./... ) || { echo "BUILD FAILS"; exit 4; }
echo "== $p/$n demo with the change"
(cd $mod && timeout 600 go test $flags -vet=off -count=1 -timeout 300s -run "$runx" $pkg 2>&1 | grep -E "^(ok|FAIL|---|panic|WARNING: DATA RACE)" | sort | uniq -c | head -8)
if [ "$3" = suite ]; then
  echo "== $p/$n full suite with the change (demo removed)"
  rm -f $wt/$dir/zz_*_test.go
  for try in 1 2 3; do
    (cd $mod && go test -vet=off -count=1 ./... 2>&1 | grep -E "^(ok|FAIL|---|panic)|address already|refused" | head -8) > /tmp/seed/suite_cur.$p.log 2>&1
    cat /tmp/seed/suite_cur.$p.log
    grep -q "FAIL" /tmp/seed/suite_cur.$p.log || break
    [ $mod = grpcgcp ] || break
    sleep 3
  done
fi
git checkout -q -- . ; git clean -qfd -e out
