#!/bin/bash
# conformance suite of the verifier itself: every okX function must verify, every badX_<word> must fail an obligation named <word>
exec /verif/bin/gocv selftest
