; Hand-written (NOT generated): (*multiEndpoint).maybeUpdateCurrent, state after the range loop
; (loop invariant at exit with $visited == dom), then the straight-line tail; switchFromTo inlined.
(declare-sort S 0)
(declare-fun ep_id (Int) S) (declare-fun ep_prio (Int) Int) (declare-fun ep_status (Int) Int) ; 0 unavailable 1 available 2 recovering
(declare-fun dom (S) Bool) (declare-fun val (S) Int)
(declare-const cur S) (declare-const delay Int) (declare-const topA Int) (declare-const top Int)
(assert (>= delay 0))
; MEInv minus membership
(assert (exists ((k S)) (dom k)))
(assert (forall ((k S)) (! (=> (dom k) (and (not (= (val k) 0)) (= (ep_id (val k)) k) (<= 0 (ep_status (val k))) (<= (ep_status (val k)) 2))) :pattern ((dom k)) :pattern ((val k)))))
(assert (forall ((k1 S) (k2 S)) (! (=> (and (dom k1) (dom k2) (not (= k1 k2))) (not (= (ep_prio (val k1)) (ep_prio (val k2))))) :pattern ((dom k1) (dom k2)))))
; loop invariant at exit (visited = dom)
(assert (or (= topA 0) (and (dom (ep_id topA)) (= (val (ep_id topA)) topA) (= (ep_status topA) 1))))
(assert (forall ((k S)) (! (=> (and (dom k) (= (ep_status (val k)) 1)) (and (not (= topA 0)) (<= (ep_prio topA) (ep_prio (val k))))) :pattern ((dom k)))))
(assert (or (= top 0) (and (dom (ep_id top)) (= (val (ep_id top)) top))))
(assert (forall ((k S)) (! (=> (dom k) (and (not (= top 0)) (<= (ep_prio top) (ep_prio (val k))))) :pattern ((dom k)))))
; tail of the function
(define-fun exists_c () Bool (dom cur))
(define-fun c () Int (ite exists_c (val cur) 0))
(define-fun keep () Bool (and exists_c (= (ep_status c) 2) (or (= topA 0) (> (ep_prio topA) (ep_prio c)))))
(define-fun immediate () Bool (or (= delay 0) (= c 0) (= (ep_status c) 0)))
(define-fun cur1 () S
  (ite keep cur
   (ite (not (= topA 0))
        (ite (= cur (ep_id topA)) cur (ite immediate (ep_id topA) cur))
        (ite exists_c cur (ep_id top)))))
; spec vocabulary
(define-fun isBestAvail ((x Int)) Bool (and (not (= x 0)) (dom (ep_id x)) (= (val (ep_id x)) x) (= (ep_status x) 1)
   (forall ((k S)) (=> (and (dom k) (= (ep_status (val k)) 1)) (<= (ep_prio x) (ep_prio (val k)))))))
(define-fun noneAvail () Bool (forall ((k S)) (=> (dom k) (not (= (ep_status (val k)) 1)))))

; ---- goals
(push)
(echo "m_member: expect unsat")
(assert (not (dom cur1)))
(check-sat)
(pop)
(push)
(echo "m_unavail_switches: expect unsat")
; [C13.top-available] current exists, unavailable, some available => current' is the best available
(declare-const b Int)
(assert (and exists_c (= (ep_status c) 0) (isBestAvail b)))
(assert (not (= cur1 (ep_id b))))
(check-sat)
(pop)
(push)
(echo "m_none_available: expect unsat")
; [C13.none-available] none available => unchanged if exists else min-priority endpoint
(assert noneAvail)
(assert (not (ite exists_c (= cur1 cur) (and (dom cur1) (forall ((k S)) (=> (dom k) (<= (ep_prio (val cur1)) (ep_prio (val k)))))))))
(check-sat)
(pop)
(push)
(echo "m_nodelay_exact: expect unsat")
; [C13.nodelay] delay==0: recovering current kept iff no higher-priority available; else best available; else unchanged
(declare-const b Int)
(assert (= delay 0))
(assert exists_c)
(assert (isBestAvail b))
(assert (not (= cur1 (ite (and (= (ep_status c) 2) (> (ep_prio b) (ep_prio c))) cur (ep_id b)))))
(check-sat)
(pop)
(push)
(echo "m_delay_holds: expect unsat")
; [C14.delay-holds] delay>0 and current exists and is available or recovering => not moved in this call
(assert (and (> delay 0) exists_c (or (= (ep_status c) 1) (= (ep_status c) 2))))
(assert (not (= cur1 cur)))
(check-sat)
(pop)
(push)
(echo "m_no_downgrade: expect unsat")
; [C14.no-downgrade] in maybeUpdateCurrent
(assert (and exists_c (= (ep_status c) 1) (not (= cur1 cur)) (dom cur1)))
(assert (not (< (ep_prio (val cur1)) (ep_prio c))))
(check-sat)
(pop)
(push)
(echo "m_cover_expect_sat: expect sat (vacuity guard)")
; vacuity guard: the premises are satisfiable together with a real move
(assert (and exists_c (not (= cur1 cur))))
(check-sat)
(pop)
