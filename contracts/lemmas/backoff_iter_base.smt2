; tags: C18
; lemma backoff.iter-base: P(0), where P(n) := for all x >= 0, m: x <= bkIter(x,m,n) <= bkIter(x,m,n+1).
; bkIter is uninterpreted; the three unfoldings used are instances of its defining axiom (contract file, rawaxiom uf_bkIter).
(set-logic ALL)
(define-sort F () (_ FloatingPoint 11 53))
(declare-fun it (F F Int) F)
(define-fun c15 () F ((_ to_fp 11 53) RNE 1.5))
(define-fun unf ((x F) (m F) (n Int)) Bool (= (it x m n) (ite (and (fp.lt x m) (> n 0)) (it (fp.mul RNE x c15) m (- n 1)) x)))
(declare-const x F)
(declare-const m F)
(assert (unf x m 0))
(assert (unf x m 1))
(assert (unf (fp.mul RNE x c15) m 0))
(assert (fp.geq x (_ +zero 11 53)))
(assert (not (and (fp.leq x (it x m 0)) (fp.leq (it x m 0) (it x m 1)))))
(check-sat)
