; tags: C18
; lemma backoff.res-mono: the final step of backoff (clause C18.backoff-value) is monotone in the loop's value:
;   res(x) := if x >= float(m) then m else min(m, max(b, trunc(x)))        for 0 <= b <= m <= MaxInt64
;   0 <= x <= y  ==>  res(x) <= res(y)
; i2f / f2i are uninterpreted; the three instances assumed here are instances of fp.trunc-mono, fp.maxint + fp.exact (mono).
; With backoff.iter-base/step (bkIter(fb,fm,r) <= bkIter(fb,fm,r+1), both >= fb >= 0) this gives
;   backoff(b, m, r) <= backoff(b, m, r+1)   for all r >= 0 and 0 <= b <= m.
(set-logic ALL)
(define-sort F () (_ FloatingPoint 11 53))
(declare-fun i2f (Int) F)
(declare-fun f2i (F) Int)
(declare-const b Int)
(declare-const m Int)
(declare-const x F)
(declare-const y F)
(define-fun two63 () F ((_ to_fp 11 53) RNE 9223372036854775808.0))
(define-fun imax ((p Int) (q Int)) Int (ite (>= p q) p q))
(define-fun res ((v F)) Int (ite (fp.geq v (i2f m)) m (ite (> (imax b (f2i v)) m) m (imax b (f2i v)))))
(assert (and (<= 0 b) (<= b m) (<= m 9223372036854775807)))
; instance of fp.maxint + mono: float(m) <= 2^63
(assert (fp.leq (i2f m) two63))
; instance of fp.trunc-mono
(assert (=> (and (fp.leq (fp.neg two63) x) (fp.leq x y) (fp.lt y two63)) (<= (f2i x) (f2i y))))
(assert (and (fp.geq x (_ +zero 11 53)) (fp.leq x y)))
(assert (not (<= (res x) (res y))))
(check-sat)
