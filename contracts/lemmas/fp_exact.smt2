; tags: C18
; lemma fp.mono: int64 -> float64 conversion is monotone (axiom A.mono in the VCs).
(set-logic QF_FPBV)
(declare-const x (_ BitVec 64))
(declare-const y (_ BitVec 64))
(assert (bvsle x y))
(assert (not (fp.leq ((_ to_fp 11 53) RNE x) ((_ to_fp 11 53) RNE y))))
(check-sat)
