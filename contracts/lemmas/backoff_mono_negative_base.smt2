; tags: C18
; KNOWN FINDING (expected: sat). "Non-decreasing in the retry count" fails for a negative base below -2^53:
; backoff(-(2^53+1), 0, 0) = -2^53 (float64 rounds the base towards zero) but backoff(-(2^53+1), 0, 1) = -(2^53+1).
; The computation of the real function for these arguments, bit-precisely; the claim d0 <= d1 is refuted.
(set-logic QF_FPBV)
(define-fun b () (_ BitVec 64) (bvneg #x0020000000000001))
(define-fun m () (_ BitVec 64) #x0000000000000000)
(define-fun fb () (_ FloatingPoint 11 53) ((_ to_fp 11 53) RNE b))
(define-fun fm () (_ FloatingPoint 11 53) ((_ to_fp 11 53) RNE m))
(define-fun x1 () (_ FloatingPoint 11 53) (ite (fp.lt fb fm) (fp.mul RNE fb ((_ to_fp 11 53) RNE 1.5)) fb))
(define-fun smax ((p (_ BitVec 64)) (q (_ BitVec 64))) (_ BitVec 64) (ite (bvsge p q) p q))
(define-fun res ((v (_ FloatingPoint 11 53))) (_ BitVec 64) (ite (fp.geq v fm) m (ite (bvsgt (smax b ((_ fp.to_sbv 64) RTZ v)) m) m (smax b ((_ fp.to_sbv 64) RTZ v)))))
(assert (not (bvsle (res fb) (res x1))))
(check-sat)
