; tags: C18
; lemma fp.finite: converting an int64 gives a finite float64, and 0 converts to +0 (axioms A.finite, A.zero).
(set-logic QF_FPBV)
(declare-const x (_ BitVec 64))
(assert (or (fp.isNaN ((_ to_fp 11 53) RNE x)) (fp.isInfinite ((_ to_fp 11 53) RNE x)) (not (fp.eq ((_ to_fp 11 53) RNE #x0000000000000000) (_ +zero 11 53)))))
(check-sat)
