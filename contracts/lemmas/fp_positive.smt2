; tags: C18
; lemma fp.positive: a float64 in [1, 2^63) truncates to an int64 >= 1 (axiom A.positive in the VCs).
(set-logic QF_FPBV)
(declare-const b (_ FloatingPoint 11 53))
(assert (fp.geq b ((_ to_fp 11 53) RNE 1.0)))
(assert (fp.lt b ((_ to_fp 11 53) RNE 9223372036854775808.0)))
(assert (not (bvsge ((_ fp.to_sbv 64) RTZ b) #x0000000000000001)))
(check-sat)
