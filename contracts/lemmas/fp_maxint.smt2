; tags: C18
; lemma fp.maxint: float64(MaxInt64) = 2^63, so float64(m) <= 2^63 for every int64 m (with fp.exact/mono).
(set-logic QF_FPBV)
(assert (not (fp.eq ((_ to_fp 11 53) RNE #x7fffffffffffffff) ((_ to_fp 11 53) RNE 9223372036854775808.0))))
(check-sat)
