; tags: C18
; lemma backoff.iter-step: P(n-1) ==> P(n) for n >= 1 (P as in backoff_iter_base); the induction hypothesis is
; instantiated at x' = 1.5 * x. With the base case this gives P(n) for every n >= 0 (induction over the naturals).
(set-logic ALL)
(define-sort F () (_ FloatingPoint 11 53))
(declare-fun it (F F Int) F)
(define-fun c15 () F ((_ to_fp 11 53) RNE 1.5))
(define-fun unf ((x F) (m F) (n Int)) Bool (= (it x m n) (ite (and (fp.lt x m) (> n 0)) (it (fp.mul RNE x c15) m (- n 1)) x)))
(declare-const x F)
(declare-const m F)
(declare-const n Int)
(assert (>= n 1))
(define-fun y () F (fp.mul RNE x c15))
(assert (unf x m n))
(assert (unf x m (+ n 1)))
; induction hypothesis P(n-1) at x' = y
(assert (=> (fp.geq y (_ +zero 11 53)) (and (fp.leq y (it y m (- n 1))) (fp.leq (it y m (- n 1)) (it y m (- (+ n 1) 1))))))
(assert (fp.geq x (_ +zero 11 53)))
(assert (not (and (fp.leq x (it x m n)) (fp.leq (it x m n) (it x m (+ n 1))))))
(check-sat)
