; tags: C18
; lemma fp.sandwich: for int64 x <= y in [0, 2^53], a float64 b with float64(x) <= b <= float64(y) truncates to an
; integer in [x, y]. The axiom A.sandwich over the uninterpreted conversions i2f/f2i in the VCs is this statement.
(set-logic QF_FPBV)
(declare-const x (_ BitVec 64))
(declare-const y (_ BitVec 64))
(declare-const b (_ FloatingPoint 11 53))
(assert (bvsle #x0000000000000000 x))
(assert (bvsle x y))
(assert (bvsle y #x0020000000000000))
(assert (fp.leq ((_ to_fp 11 53) RNE x) b))
(assert (fp.leq b ((_ to_fp 11 53) RNE y)))
(assert (not (and (bvsle x ((_ fp.to_sbv 64) RTZ b)) (bvsle ((_ fp.to_sbv 64) RTZ b) y))))
(check-sat)
