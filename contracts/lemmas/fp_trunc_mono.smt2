; tags: C18
; lemma fp.trunc-mono: float64 -> int64 truncation is monotone on the representable range (axiom used by backoff_res_mono).
(set-logic QF_FPBV)
(declare-const x (_ FloatingPoint 11 53))
(declare-const y (_ FloatingPoint 11 53))
(define-fun lo () (_ FloatingPoint 11 53) (fp.neg ((_ to_fp 11 53) RNE 9223372036854775808.0)))
(define-fun hi () (_ FloatingPoint 11 53) ((_ to_fp 11 53) RNE 9223372036854775808.0))
(assert (and (fp.leq lo x) (fp.leq x y) (fp.lt y hi)))
(assert (not (bvsle ((_ fp.to_sbv 64) RTZ x) ((_ fp.to_sbv 64) RTZ y))))
(check-sat)
