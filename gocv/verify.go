package main

import (
	"fmt"
	"go/types"
	"sort"
	"strings"

	"golang.org/x/tools/go/ssa"
)

type loopC struct {
	invs     []*Clause
	dec      *Clause
	blocking bool
}

func (fx *FnExec) loopContract(li *loopInfo) *loopC {
	lc := &loopC{}
	top := fx
	if top.con != nil {
		if l := top.con.Loops[li.ord]; l != nil {
			lc.invs = l.Invs
			lc.dec = l.Dec
			lc.blocking = l.Blocking
		}
	}
	if li.autoInv != nil {
		// the loop variable of a counting loop stays on its side of the literal it starts from (proved like any
		// invariant: a body that assigns the variable otherwise fails the preservation obligation)
		c := *li.autoInv
		if top.con != nil {
			c.Pkg = top.con.Pkg
		} else if fx.fn.Pkg != nil {
			c.Pkg = fx.fn.Pkg.Pkg.Path()
		}
		c.Tags = fx.e.autoTags("nopanic", fx.fn)
		lc.invs = append(append([]*Clause{}, lc.invs...), &c)
	}
	return lc
}

// FnReport is the outcome of generating obligations for one top-level function.
type FnReport struct {
	Fn       *ssa.Function
	Key      string
	E        *Engine
	Obls     []*Obligation
	Outside  []string
	SpecErrs []string
	UsedDefault []string
	UsedContracts []string
	Features []string
	HasContract bool
	Panic    string
}

// verifyFunction generates the obligations of fn verified standalone against its contract.
func verifyFunction(w *World, fn *ssa.Function) (rep *FnReport) {
	e := newEngine(w, fn)
	con := w.contractFor(fn)
	rep = &FnReport{Fn: fn, Key: fnKey(fn), E: e, HasContract: con != nil}
	defer func() {
		if r := recover(); r != nil {
			rep.Panic = fmt.Sprint(r)
			if w.opts.Verbose {
				panic(r)
			}
		}
		rep.Obls = e.obls
		rep.Outside = e.outside
		rep.SpecErrs = e.specErrors
		rep.Features = e.features
		for k := range e.usedDefault {
			rep.UsedDefault = append(rep.UsedDefault, k)
		}
		sort.Strings(rep.UsedDefault)
		for k := range e.usedContracts {
			rep.UsedContracts = append(rep.UsedContracts, k)
		}
		sort.Strings(rep.UsedContracts)
	}()
	fx := &FnExec{e: e, fn: fn, con: con, isTop: true}
	e.stack = append(e.stack, fn)
	st := &State{pc: "true", locals: map[*ssa.Alloc][]string{}, regs: map[ssa.Value]*Val{}, heap: map[string]string{}}
	e.assume(st, "(>= "+e.heapGet(st, e.keyAlloc())+" 0)")
	e.assumeTrackedWF(st)
	if true {
		// functions of packages with sequence specs: the sequence view is set up before any append executes
		pkgPath := ""
		tp := fn
		for tp.Parent() != nil {
			tp = tp.Parent()
		}
		if tp.Pkg != nil {
			pkgPath = tp.Pkg.Pkg.Path()
		}
		if w.spec.Options[pkgPath]["seq"] == "string" {
			e.seqSetup()
		}
		if w.spec.Options[pkgPath]["seq"] == "bytes" {
			e.seqSetupInt()
		}
	}
	args, binds := fx.genericArgs(st)
	for i, p := range fn.Params {
		st.regs[p] = args[i]
	}
	for i, fv := range fn.FreeVars {
		st.regs[fv] = binds[i]
	}
	fx.args = args
	// methods are invoked on objects: receiver non-nil
	if fn.Signature.Recv() != nil && len(args) > 0 && len(args[0].L) == 1 {
		if _, isPtr := fn.Signature.Recv().Type().Underlying().(*types.Pointer); isPtr {
			e.assume(st, not(eq(args[0].L[0], "0")))
		}
	}
	// type invariants of parameters
	for i, p := range fn.Params {
		fx.typeInvOnLoad(st, p.Type(), args[i])
	}
	fx.assumeHeld(st)
	fx.args = args
	e.rep = e.replaySetup(fx, st, w.mcfg)
	// package-level invariants over immutable globals
	if fn.Name() != "init" || fn.Parent() != nil {
		pkgPath := ""
		top := fn
		for top.Parent() != nil {
			top = top.Parent()
		}
		if top.Pkg != nil {
			pkgPath = top.Pkg.Pkg.Path()
		}
		for _, gi := range append(append([]*Clause{}, w.spec.GlobalInvs["extern"]...), w.spec.GlobalInvs[pkgPath]...) {
			env := &SpecEnv{fx: fx, e: e, st: st, vars: map[string]*SV{}, pkg: gi.Pkg}
			nerr := len(e.specErrors)
			sv := env.eval(gi.Expr)
			if len(e.specErrors) > nerr && gi.Pkg == "extern" {
				// an extern fact about packages this module does not import: not applicable here
				e.specErrors = e.specErrors[:nerr]
				continue
			}
			if sv != nil && len(sv.V.L) == 1 {
				e.assume(st, sv.V.L[0])
			}
		}
	}
	// preconditions
	if con != nil {
		env := fx.specEnv(st, nil, nil)
		for _, rq := range con.Requires {
			sv := env.eval(rq.Expr)
			if sv != nil && len(sv.V.L) == 1 {
				e.assume(st, sv.V.L[0])
			}
		}
		// closures: captures clauses (asserted at the creation site) are assumed
		for _, c := range con.Captures {
			sv := env.eval(c.Expr)
			if sv != nil && len(sv.V.L) == 1 {
				e.assume(st, sv.V.L[0])
			}
		}
		// vacuity: the precondition must be satisfiable
		if len(con.Requires)+len(con.Captures) > 0 {
			o := e.addObl("cover", "requires-sat", nil, st, "true", fn.Pos())
			if o != nil {
				o.Cover = true
				o.Static = ""
			}
		}
	}
	tr := e.pushTrack()
	fx.old = st.clone()
	out, rv := fx.run(st, args, binds)
	e.popTrack()
	if out.pc == "false" {
		return
	}
	// postconditions: checked at every return site, against the state at the first acquire on that path
	// (atomic functions) or the entry state
	if con != nil {
		for ri, rst := range fx.rets {
			rold := fx.old
			if rst.acq != nil {
				rold = rst.acq
			}
			env := fx.specEnv(rst, rold, nil)
			fx.bindResults(env, con.Results, fn.Signature, fx.retVals[ri])
			for _, en := range con.Ensures {
				for pi, nt := range env.evalSplit(en.Expr) {
					name := "ensures" + en.labelStr() + partName(nt, pi)
					if len(fx.rets) > 1 {
						name += fmt.Sprintf("@return%d", fx.retOrd[ri])
					}
					if o := e.addObl("contract", name, fx.partTags(en, nt), rst, nt.term, fx.retPos[ri]); o != nil {
						o.Clause = en
					}
				}
			}
		}
		if con.Constructor && rv != nil {
			// a constructor establishes the type invariant of the object it returns
			res := fn.Signature.Results()
			if res.Len() >= 1 {
				rt := res.At(0).Type()
				obj := rv
				if res.Len() > 1 {
					obj = rv.Tup[0]
				}
				if con.ConsType != "" {
					// result is an interface boxing *T
					if tt := e.resolveType(&STypeExpr{Kind: "ptr", Elem: &STypeExpr{Kind: "named", Name: con.ConsType}}, con.Pkg); tt != nil {
						tn := shortTypeName(tt)
						ub := e.c.fun(fmt.Sprintf("unbox_%s_%d", tn, 0), []Sort{SInt}, SInt)
						tof := e.c.fun("typeof", []Sort{SInt}, SInt)
						e.addObl("contract", "constructor:type", frameTags(con), out, and(not(eq(obj.L[0], "0")), eq(app(tof, obj.L[0]), fx.typeTag(tt))), fn.Pos())
						obj = scalar(app(ub, obj.L[0]))
						rt = tt
					}
				}
				if pt, ok := rt.Underlying().(*types.Pointer); ok {
					if n, ok := pt.Elem().(*types.Named); ok && n.Obj().Pkg() != nil {
						for _, c := range w.spec.TypeInvs[n.Obj().Pkg().Path()+"."+n.Obj().Name()] {
							env := &SpecEnv{fx: fx, e: e, st: out, vars: map[string]*SV{"this": {V: obj, T: rt}}, pkg: c.Pkg}
							sv := env.eval(c.Expr)
							g := "false"
							if sv != nil && len(sv.V.L) == 1 {
								g = sv.V.L[0]
							}
							e.addObl("contract", "constructor:typeinv:"+n.Obj().Name(), append(frameTags(con), e.autoTags("nopanic", fn)...), out, implies(not(eq(obj.L[0], "0")), g), fn.Pos())
						}
					}
				}
			}
		}
		if con.ModDeclared {
			allowed := map[string]bool{}
			for _, m := range con.Modifies {
				for _, k := range e.modifiesKeys(m, con.Pkg) {
					allowed[k] = true
				}
			}
			var bad []string
			for k, fresh := range tr.keys {
				if fresh || allowed[k] || strings.HasPrefix(k, "It|") || strings.HasPrefix(k, "K|") || strings.HasPrefix(k, heldKeyPrefix) || k == e.keyAlloc() {
					continue
				}
				bad = append(bad, e.heapInfo[k].base)
			}
			sort.Strings(bad)
			o := e.addObl("frame", "modifies", frameTags(con), out, "true", fn.Pos())
			if o != nil && len(bad) > 0 {
				o.Goal = "false"
				o.Static = "writes outside the declared modifies set: " + strings.Join(bad, ", ")
			}
		}
	}
	// every callsite assertion must have found its call (otherwise the contract no longer binds)
	if con != nil {
		for _, cs := range con.CallSites {
			if !cs.seen {
				o := e.addObl("bind", fmt.Sprintf("callsite:%s#%d", cs.Callee, cs.N), fx.clauseTags(cs.C), out, "false", fn.Pos())
				if o != nil {
					o.Static = "the call the callsite assertion is attached to does not exist (anymore)"
				}
			}
			cs.seen = false
		}
	}
	if con != nil {
		for _, oa := range con.OnAssign {
			if !oa.seen {
				o := e.addObl("bind", "onassign:"+oa.Callee, fx.clauseTags(oa.C), out, "false", fn.Pos())
				if o != nil {
					o.Static = "no assignment to the local named in the onassign clause (contract no longer binds)"
				}
			}
			oa.seen = false
		}
	}
	// monitor protocol: every change of a waited-for field is followed by a Broadcast before returning
	for _, class := range w.spec.Conds {
		k := e.keyCondFlag(class)
		for ri, rst := range fx.rets {
			if cur, ok := rst.heap[k]; ok {
				name := "monitor.wake:" + class[strings.LastIndex(class, "/")+1:]
				if len(fx.rets) > 1 {
					name += fmt.Sprintf("@return%d", fx.retOrd[ri])
				}
				e.addObl("lock", name, e.autoTags("lock", fn), rst, not(cur), fx.retPos[ri])
			}
		}
	}
	// lock balance at exit
	tags := e.autoTags("lock", fn)
	for _, h := range e.held(out) {
		declared := false
		for _, d := range fx.topHeld {
			if d.key == h.key && d.ref == h.ref {
				declared = true
			}
		}
		if declared {
			continue
		}
		hs := h.class[strings.LastIndex(h.class, "/")+1:]
		e.addObl("lock", "balanced:"+hs, tags, out, eq(sel(e.heapGet(out, h.key), h.ref), "0"), fn.Pos())
	}
	for _, d := range fx.topHeld {
		hs := d.class[strings.LastIndex(d.class, "/")+1:]
		e.addObl("lock", "balanced:held:"+hs, tags, out, eq(sel(e.heapGet(out, d.key), d.ref), "1"), fn.Pos())
	}
	return
}

func frameTags(con *FnContract) []string {
	seen := map[string]bool{}
	var out []string
	for _, c := range con.Ensures {
		for _, t := range c.Tags {
			if !seen[t] {
				seen[t] = true
				out = append(out, t)
			}
		}
	}
	return out
}

// isStandalone decides whether fn is verified on its own (vs. only inlined at call sites).
func (w *World) isStandalone(fn *ssa.Function) bool {
	if con := w.contractFor(fn); con != nil {
		// an `inline` function is executed in its callers; if it states postconditions of its own they are
		// obligations of the function itself as well
		return !con.Inline || len(con.Ensures) > 0
	}
	if fn.Parent() != nil {
		return true // closures run on their own
	}
	if fn.Name() == "init" {
		return true
	}
	if fn.Object() != nil && fn.Object().Exported() {
		return true
	}
	// unexported methods of exported interface implementations (Pick, UpdateSubConnState...) are exported names.
	// unexported functions: inline-only if some in-scope function calls them, else standalone
	return !w.hasInScopeCaller(fn)
}

func (w *World) hasInScopeCaller(fn *ssa.Function) bool {
	if w.callers == nil {
		w.callers = map[*ssa.Function]bool{}
		for _, f := range w.scopeFunctions() {
			for _, b := range f.Blocks {
				for _, in := range b.Instrs {
					if ci, ok := in.(ssa.CallInstruction); ok {
						if c := ci.Common().StaticCallee(); c != nil {
							w.callers[c] = true
						}
					}
				}
			}
		}
	}
	return w.callers[fn]
}

// clauseTags: a clause's own tags, or (for unlabelled support clauses such as loop invariants) the union of the
// tags of the enclosing function's postconditions: a failing support obligation fails the properties it supports.
func (fx *FnExec) clauseTags(c *Clause) []string {
	if len(c.Tags) > 0 {
		return c.Tags
	}
	top := fx.topFx()
	if top.con != nil {
		if t := frameTags(top.con); len(t) > 0 {
			return t
		}
	}
	return fx.e.autoTags("contract", fx.fn)
}
