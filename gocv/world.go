package main

import (
	"fmt"
	"go/types"
	"os"
	"path/filepath"
	"sort"
	"strings"

	"golang.org/x/tools/go/packages"
	"golang.org/x/tools/go/ssa"
	"golang.org/x/tools/go/ssa/ssautil"
)

// ModuleCfg describes one Go module of /repo to load.
type ModuleCfg struct {
	Dir      string   // module directory
	Patterns []string // package patterns
	Scope    []string // package paths under verification (obligations generated)
	InlineOK []string // additional package paths whose bodies may be inlined (generated code)
	StrTheory bool
}

func loadWorld(m ModuleCfg, externDir string, opts Options) (*World, error) {
	cfg := &packages.Config{
		Mode:       packages.LoadSyntax,
		Dir:        m.Dir,
		BuildFlags: []string{"-tags=verif"},
		Env:        append(os.Environ(), "GOFLAGS=-mod=mod", "GOPROXY=off", "GOSUMDB=off", "GOTOOLCHAIN=local"),
	}
	pkgs, err := packages.Load(cfg, m.Patterns...)
	if err != nil {
		return nil, err
	}
	var errs []string
	for _, p := range pkgs {
		for _, e := range p.Errors {
			errs = append(errs, e.Error())
		}
	}
	if len(errs) > 0 {
		return nil, fmt.Errorf("package load errors:\n%s", strings.Join(errs, "\n"))
	}
	prog, spkgs := ssautil.Packages(pkgs, ssa.NaiveForm|ssa.GlobalDebug)
	prog.Build()
	w := &World{pkgs: pkgs, prog: prog, spkgs: spkgs, scope: map[string]bool{}, inlineOK: map[string]bool{}, spec: newSpecDB(),
		fnByKey: map[string]*ssa.Function{}, opts: opts, fl: newFlattener(), extraNoPanicTags: map[string][]string{}, raceStrict: map[string]bool{},
		tpkgs: map[string]*types.Package{}, autoTagCache: map[string][]string{}}
	if len(pkgs) > 0 {
		w.fset = pkgs[0].Fset
	}
	w.fl.strTheory = m.StrTheory
	w.mcfg = m
	for _, s := range m.Scope {
		w.scope[s] = true
		w.inlineOK[s] = true
		w.fl.transparentPkgs[s] = true
	}
	for _, s := range m.InlineOK {
		w.inlineOK[s] = true
		w.fl.transparentPkgs[s] = true
	}
	// index types packages (transitively)
	var visit func(p *types.Package)
	visit = func(p *types.Package) {
		if p == nil || w.tpkgs[p.Path()] != nil {
			return
		}
		w.tpkgs[p.Path()] = p
		for _, i := range p.Imports() {
			visit(i)
		}
	}
	for _, p := range pkgs {
		visit(p.Types)
	}
	// functions
	for fn := range ssautil.AllFunctions(prog) {
		w.fnByKey[fnKey(fn)] = fn
	}
	// contracts: in-repo files zz_contracts_verif.go in scope packages; extern files
	for _, p := range pkgs {
		if !w.scope[p.PkgPath] {
			continue
		}
		for _, f := range p.GoFiles {
			if strings.HasSuffix(f, "zz_contracts_verif.go") {
				w.spec.loadSpecFile(f, p.PkgPath, true)
			}
		}
	}
	if externDir != "" {
		files, _ := filepath.Glob(filepath.Join(externDir, "*.gocv"))
		sort.Strings(files)
		for _, f := range files {
			w.spec.loadSpecFile(f, "extern", false)
		}
	}
	return w, nil
}

func (w *World) typesPkg(path string) *types.Package {
	return w.tpkgs[path]
}

func (w *World) allTypesPkgs() []*types.Package {
	var ks []string
	for k := range w.tpkgs {
		ks = append(ks, k)
	}
	sort.Strings(ks)
	var out []*types.Package
	for _, k := range ks {
		out = append(out, w.tpkgs[k])
	}
	return out
}

func (w *World) ssaPkg(path string) *ssa.Package {
	for _, p := range w.spkgs {
		if p != nil && p.Pkg.Path() == path {
			return p
		}
	}
	return w.prog.ImportedPackage(path)
}

func (w *World) contractFor(f *ssa.Function) *FnContract {
	return w.spec.Fns[fnKey(f)]
}

// scopeFunctions lists the functions of the packages in scope (source functions, closures included), sorted.
func (w *World) scopeFunctions() []*ssa.Function {
	var out []*ssa.Function
	seen := map[*ssa.Function]bool{}
	var addFn func(f *ssa.Function)
	addFn = func(f *ssa.Function) {
		if f == nil || seen[f] || len(f.Blocks) == 0 {
			return
		}
		seen[f] = true
		out = append(out, f)
		for _, an := range f.AnonFuncs {
			addFn(an)
		}
	}
	for _, p := range w.spkgs {
		if p == nil || !w.scope[p.Pkg.Path()] {
			continue
		}
		for _, m := range p.Members {
			switch m := m.(type) {
			case *ssa.Function:
				if m.Synthetic == "" || m.Name() == "init" {
					addFn(m)
				}
			case *ssa.Type:
				for _, t := range []types.Type{m.Type(), types.NewPointer(m.Type())} {
					ms := w.prog.MethodSets.MethodSet(t)
					for i := 0; i < ms.Len(); i++ {
						f := w.prog.MethodValue(ms.At(i))
						if f != nil && f.Synthetic == "" && f.Pkg == p {
							addFn(f)
						}
						// promoted-method wrappers of types listed with `sweepwrappers`
						if f != nil && f.Synthetic != "" && len(f.Blocks) > 0 && w.spec.SweepWrappers[p.Pkg.Path()+"."+m.Name()] && strings.HasPrefix(f.Synthetic, "wrapper") && f.Name() != "Lock" && f.Name() != "Unlock" && f.Name() != "TryLock" && f.Name() != "lockSlow" && f.Name() != "unlockSlow" && t != m.Type() {
							if !seen[f] {
								seen[f] = true
								out = append(out, f)
							}
						}
					}
				}
			}
		}
	}
	// skip generated files and mocks
	var filtered []*ssa.Function
	for _, f := range out {
		pos := f.Pos()
		if pos.IsValid() {
			fn := w.fset.Position(pos).Filename
			if strings.HasSuffix(fn, ".pb.go") || strings.Contains(fn, "/mocks/") || strings.HasSuffix(fn, "_test.go") {
				continue
			}
		}
		filtered = append(filtered, f)
	}
	sort.Slice(filtered, func(i, j int) bool { return fnKey(filtered[i]) < fnKey(filtered[j]) })
	return filtered
}
