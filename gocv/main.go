package main

import (
	"flag"
	"fmt"
	"os"
	"path/filepath"
	"runtime"
	"sort"
	"strings"
	"time"
)

var (
	repoDir  = "/repo"
	verifDir = "/verif"
)

func modules() map[string]ModuleCfg {
	g := "github.com/GoogleCloudPlatform/grpc-gcp-go/grpcgcp"
	return map[string]ModuleCfg{
		"grpcgcp": {
			Dir:      filepath.Join(repoDir, "grpcgcp"),
			Patterns: []string{".", "./multiendpoint", "./grpc_gcp"},
			Scope:    []string{g, g + "/multiendpoint"},
			InlineOK: []string{g + "/grpc_gcp"},
		},
		"prober": {
			Dir:       filepath.Join(repoDir, "spanner_prober"),
			Patterns:  []string{".", "./prober"},
			Scope:     []string{"spanner_prober", "spanner_prober/prober"},
			StrTheory: true,
		},
		"enginetest": {
			Dir:      filepath.Join(verifDir, "selftest", "engine"),
			Patterns: []string{"."},
			Scope:    []string{"enginetest"},
		},
		"checksum": {
			Dir:      filepath.Join(repoDir, "e2e-checksum"),
			Patterns: []string{"."},
			Scope:    []string{"github.com/GoogleCloudPlatform/grpc-gcp-go/e2e-checksum"},
		},
	}
}

func main() {
	if len(os.Args) < 2 {
		fmt.Fprintln(os.Stderr, "usage: gocv <fn|sweep|check|selftest> ...")
		os.Exit(2)
	}
	if d := os.Getenv("GOCV_REPO"); d != "" {
		repoDir = d
	}
	if d := os.Getenv("GOCV_VERIF"); d != "" {
		verifDir = d
	}
	loadBaseLocals()
	switch os.Args[1] {
	case "fn":
		cmdFn(os.Args[2:])
	case "sweep":
		cmdSweep(os.Args[2:])
	case "check":
		os.Exit(cmdCheck(os.Args[2:]))
	case "locals":
		os.Exit(cmdLocals(os.Args[2:]))
	case "selftest":
		os.Exit(cmdSelftest(os.Args[2:]))
	default:
		fmt.Fprintln(os.Stderr, "unknown command", os.Args[1])
		os.Exit(2)
	}
}

func loadModule(name string, verbose bool) *World {
	m, ok := modules()[name]
	if !ok {
		fmt.Fprintln(os.Stderr, "unknown module", name)
		os.Exit(2)
	}
	w, err := loadWorld(m, filepath.Join(verifDir, "contracts", "extern"), Options{InlineDepth: 6, Verbose: verbose, ReachBlocks: os.Getenv("GOCV_REACH") == "blocks"})
	if err != nil {
		fmt.Fprintln(os.Stderr, err)
		os.Exit(2)
	}
	for _, e := range w.spec.Errors {
		fmt.Fprintln(os.Stderr, "spec error:", e)
	}
	return w
}

// solveAll renders and solves the obligations in parallel.
func solveAll(obls []*Obligation, outDir string, tmo int, mode string) {
	os.MkdirAll(outDir, 0o755)
	parallelDo(len(obls), workers(), func(i int) {
		o := obls[i]
		if o.Static != "" {
			if o.Static == "ok" {
				o.Res = SolveResult{Status: "unsat", Solver: "static"}
			} else {
				o.Res = SolveResult{Status: "sat", Solver: "static", Output: o.Static}
			}
			return
		}
		if o.RawSMT != "" {
			o.SMT = o.RawSMT
			o.File = filepath.Join(outDir, fmt.Sprintf("o%04d.smt2", i))
			os.WriteFile(o.File, []byte(o.SMT), 0o644)
			o.Res = solveAdaptive(o.File, o.SMT, tmo*6, mode)
			return
		}
		o.SMT = o.c.emit([]string{o.PC}, o.Goal, !o.Cover)
		if o.Cover || o.Reach {
			o.SMT = o.c.emit([]string{o.PC}, "true", false)
		}
		o.File = filepath.Join(outDir, fmt.Sprintf("o%04d.smt2", i))
		os.WriteFile(o.File, []byte(o.SMT), 0o644)
		if o.Reach {
			t := tmo
			if t > 1 {
				t = 1
			}
			o.Res = solve(o.File, t, "reach")
			return
		}
		o.Res = solveAdaptive(o.File, o.SMT, tmo, mode)
	})
	resolveGroups(obls)
}

// resolveGroups decides the groups of alternative obligations: an alternative wins if all its obligations hold; if
// none does, the alternative with the fewest failures is the one reported. Obligations of the other alternatives are
// dropped (they count as neither discharged nor failed).
func resolveGroups(obls []*Obligation) {
	type stat struct{ n, bad int }
	groups := map[string]map[string]*stat{}
	for _, o := range obls {
		if o.Group == "" {
			continue
		}
		if groups[o.Group] == nil {
			groups[o.Group] = map[string]*stat{}
		}
		s := groups[o.Group][o.Alt]
		if s == nil {
			s = &stat{}
			groups[o.Group][o.Alt] = s
		}
		s.n++
		if !o.ok() {
			s.bad++
		}
	}
	winner := map[string]string{}
	for g, alts := range groups {
		// an alternative must cover every access: it needs as many obligations as the largest alternative
		max := 0
		for _, s := range alts {
			if s.n > max {
				max = s.n
			}
		}
		var names []string
		for a := range alts {
			names = append(names, a)
		}
		sort.Strings(names)
		best, bestBad := "", 1<<30
		for _, a := range names {
			s := alts[a]
			bad := s.bad + (max - s.n)
			if bad < bestBad {
				best, bestBad = a, bad
			}
		}
		winner[g] = best
	}
	for _, o := range obls {
		if o.Group != "" && winner[o.Group] != o.Alt {
			o.Dropped = true
		}
	}
}

func (o *Obligation) ok() bool {
	if o.Dropped {
		return true
	}
	if o.Reach {
		return o.Res.Status != "unsat" && o.Res.Status != "error"
	}
	if o.Cover {
		return o.Res.Status == "sat"
	}
	return o.Res.Status == "unsat"
}

func cmdFn(args []string) {
	fs := flag.NewFlagSet("fn", flag.ExitOnError)
	mod := fs.String("m", "grpcgcp", "module")
	tmo := fs.Int("t", 10, "timeout per obligation (s)")
	verbose := fs.Bool("v", false, "verbose (panics propagate)")
	keep := fs.String("keep", "", "directory to keep SMT files")
	only := fs.String("only", "", "substring filter on obligation names")
	vac := fs.Bool("vac", false, "also check that each obligation's path condition is satisfiable")
	fs.Parse(args)
	w := loadModule(*mod, *verbose)
	t0 := time.Now()
	for _, pat := range fs.Args() {
		for _, fn := range w.scopeFunctions() {
			k := fnKey(fn)
			if !strings.Contains(k, pat) {
				continue
			}
			rep := verifyFunction(w, fn)
			fmt.Printf("== %s  (%d obligations, contract=%v)\n", shortFnKey(k), len(rep.Obls), rep.HasContract)
			if rep.Panic != "" {
				fmt.Println("  ENGINE PANIC:", rep.Panic)
			}
			for _, s := range rep.SpecErrs {
				fmt.Println("  SPEC ERROR:", s)
			}
			for _, s := range rep.Outside {
				fmt.Println("  ", s)
			}
			dir := *keep
			if dir == "" {
				dir, _ = os.MkdirTemp("", "gocv")
				defer os.RemoveAll(dir)
			}
			var obls []*Obligation
			for _, o := range rep.Obls {
				if *only == "" || strings.Contains(o.Name, *only) {
					obls = append(obls, o)
				}
			}
			solveAll(obls, dir, *tmo, "first")
			for _, o := range obls {
				mark := "ok  "
				if !o.ok() {
					mark = "FAIL"
				}
				fmt.Printf("  %s %-8s %-70s %s %s %.2fs %v\n", mark, o.Kind, o.Name, o.Res.Status, o.Res.Solver, o.Res.TimeS, o.Tags)
				if !o.ok() && o.Res.Output != "" {
					fmt.Println("       ", firstLines(o.Res.Output, 2))
				}
				if !o.ok() {
					fmt.Println("        at", o.Pos, strings.Join(o.Res.Tried, " "))
				}
				if *vac && o.Static == "" {
					f := o.File + ".cover.smt2"
					os.WriteFile(f, []byte(o.c.emit([]string{o.PC}, "true", false)), 0o644)
					r := solve(f, *tmo, "first")
					if r.Status == "unsat" {
						fmt.Println("        VACUOUS: path condition is unsatisfiable")
					} else {
						fmt.Println("        pc:", r.Status)
					}
				}
			}
			if len(rep.UsedDefault) > 0 {
				fmt.Println("  default-extern:", strings.Join(rep.UsedDefault, ", "))
			}
		}
	}
	fmt.Printf("total %.1fs\n", time.Since(t0).Seconds())
}

func cmdSweep(args []string) {
	fs := flag.NewFlagSet("sweep", flag.ExitOnError)
	mod := fs.String("m", "grpcgcp", "module")
	tmo := fs.Int("t", 10, "timeout per obligation (s)")
	verbose := fs.Bool("v", false, "verbose")
	failOnly := fs.Bool("f", true, "print failures only")
	fs.Parse(args)
	w := loadModule(*mod, *verbose)
	t0 := time.Now()
	var all []*Obligation
	var reps []*FnReport
	for _, fn := range w.scopeFunctions() {
		if !w.isStandalone(fn) {
			continue
		}
		rep := verifyFunction(w, fn)
		reps = append(reps, rep)
		all = append(all, rep.Obls...)
	}
	fmt.Printf("generated %d obligations for %d functions in %.1fs\n", len(all), len(reps), time.Since(t0).Seconds())
	dir, _ := os.MkdirTemp("", "gocv")
	defer os.RemoveAll(dir)
	solveAll(all, dir, *tmo, "first")
	byStatus := map[string]int{}
	for _, rep := range reps {
		printed := false
		hdr := func() {
			if !printed {
				fmt.Printf("== %s\n", shortFnKey(rep.Key))
				printed = true
			}
		}
		if rep.Panic != "" {
			hdr()
			fmt.Println("  ENGINE PANIC:", rep.Panic)
		}
		for _, s := range rep.SpecErrs {
			hdr()
			fmt.Println("  SPEC ERROR:", s)
		}
		for _, s := range rep.Outside {
			hdr()
			fmt.Println("  ", s)
		}
		for _, o := range rep.Obls {
			byStatus[o.Res.Status]++
			if o.ok() && *failOnly {
				continue
			}
			hdr()
			mark := "ok  "
			if !o.ok() {
				mark = "FAIL"
			}
			fmt.Printf("  %s %-8s %-70s %s %s %.2fs %v\n", mark, o.Kind, o.Name, o.Res.Status, o.Res.Solver, o.Res.TimeS, o.Tags)
		}
	}
	var ks []string
	for k := range byStatus {
		ks = append(ks, k)
	}
	sort.Strings(ks)
	for _, k := range ks {
		fmt.Printf("%s=%d ", k, byStatus[k])
	}
	fmt.Printf("\ntotal %.1fs\n", time.Since(t0).Seconds())
}

func workers() int {
	n := runtime.NumCPU() / 2
	if n < 1 {
		n = 1
	}
	if n > 8 {
		n = 8
	}
	return n
}

// cmdSelftest runs the conformance suite of the verifier itself (/verif/selftest/engine): every function okX must
// verify completely, every function badX_<word> must have a failing obligation whose name contains <word>.
func cmdSelftest(args []string) int {
	w := loadModule("enginetest", false)
	if w == nil {
		fmt.Println("selftest: cannot load the conformance module")
		return 2
	}
	outDir, _ := os.MkdirTemp("", "gocv-selftest")
	defer os.RemoveAll(outDir)
	bad := 0
	n := 0
	for _, fn := range w.scopeFunctions() {
		if !w.isStandalone(fn) {
			continue
		}
		name := fn.Name()
		if (!strings.HasPrefix(name, "ok") && !strings.HasPrefix(name, "bad")) || strings.Contains(name, "$") {
			continue // closures are covered through the functions that contain them
		}
		n++
		rep := verifyFunction(w, fn)
		solveAll(rep.Obls, outDir, 20, "first")
		var failed []string
		for _, o := range rep.Obls {
			if !o.ok() {
				failed = append(failed, o.Name)
			}
		}
		problem := ""
		if rep.Panic != "" {
			problem = "engine failure: " + rep.Panic
		} else if len(rep.SpecErrs) > 0 {
			problem = "contract does not bind: " + strings.Join(rep.SpecErrs, "; ")
		} else if strings.HasPrefix(name, "ok") {
			if len(failed) > 0 {
				problem = "expected to verify, failed: " + strings.Join(failed, ", ")
			}
		} else {
			word := name[strings.LastIndex(name, "_")+1:]
			hit := false
			for _, f := range failed {
				if strings.Contains(f, word) {
					hit = true
				}
			}
			if !hit {
				problem = fmt.Sprintf("expected a failing obligation containing %q, failed: %v", word, failed)
			}
		}
		if problem != "" {
			bad++
			fmt.Printf("MISMATCH %s: %s\n", name, problem)
		} else {
			fmt.Printf("as expected %s (%d obligations, %d failing)\n", name, len(rep.Obls), len(failed))
		}
	}
	fmt.Printf("selftest: %d cases, %d mismatches\n", n, bad)
	if bad > 0 || n == 0 {
		return 1
	}
	return 0
}
