package main

// Mechanical translation of (a subset of) Go regular expressions to SMT-LIB RegLan terms.
// Supported: literals, escapes of punctuation, '.', character classes with ranges and negation-free members,
// grouping, alternation, * + ?, and the anchors ^ at the start and $ at the end (unanchored ends become re.all).

import (
	"fmt"
	"regexp"
	"regexp/syntax"
	"strings"
)

func goRegexToRegLan(pat string) (string, error) {
	if _, err := regexp.Compile(pat); err != nil {
		return "", fmt.Errorf("pattern does not compile: %v", err)
	}
	re, err := syntax.Parse(pat, syntax.Perl)
	if err != nil {
		return "", err
	}
	re = re.Simplify()
	// MatchString semantics: the pattern may match anywhere unless anchored
	body, begin, end, err := regLan(re, true)
	if err != nil {
		return "", err
	}
	parts := []string{}
	if !begin {
		parts = append(parts, "re.all")
	}
	parts = append(parts, body)
	if !end {
		parts = append(parts, "re.all")
	}
	if len(parts) == 1 {
		return parts[0], nil
	}
	return "(re.++ " + strings.Join(parts, " ") + ")", nil
}

func smtStrLit(s string) string {
	var b strings.Builder
	b.WriteByte('"')
	for _, r := range s {
		if r == '"' {
			b.WriteString(`""`)
		} else if r < 32 || r > 126 || r == '\\' {
			fmt.Fprintf(&b, `\u{%x}`, r)
		} else {
			b.WriteRune(r)
		}
	}
	b.WriteByte('"')
	return b.String()
}

// regLan returns the RegLan of re; begin/end report a leading ^ / trailing $ anchor consumed at top level.
func regLan(re *syntax.Regexp, top bool) (string, bool, bool, error) {
	switch re.Op {
	case syntax.OpEmptyMatch:
		return `(str.to_re "")`, false, false, nil
	case syntax.OpLiteral:
		return "(str.to_re " + smtStrLit(string(re.Rune)) + ")", false, false, nil
	case syntax.OpCharClass:
		var alts []string
		for i := 0; i+1 < len(re.Rune); i += 2 {
			lo, hi := re.Rune[i], re.Rune[i+1]
			if hi > 0x2FFFF {
				hi = 0x2FFFF
			}
			if lo == hi {
				alts = append(alts, "(str.to_re "+smtStrLit(string(lo))+")")
			} else {
				alts = append(alts, "(re.range "+smtStrLit(string(lo))+" "+smtStrLit(string(hi))+")")
			}
		}
		if len(alts) == 0 {
			return "re.none", false, false, nil
		}
		if len(alts) == 1 {
			return alts[0], false, false, nil
		}
		return "(re.union " + strings.Join(alts, " ") + ")", false, false, nil
	case syntax.OpAnyCharNotNL, syntax.OpAnyChar:
		return "re.allchar", false, false, nil
	case syntax.OpStar, syntax.OpPlus, syntax.OpQuest:
		sub, _, _, err := regLan(re.Sub[0], false)
		if err != nil {
			return "", false, false, err
		}
		op := map[syntax.Op]string{syntax.OpStar: "re.*", syntax.OpPlus: "re.+", syntax.OpQuest: "re.opt"}[re.Op]
		return "(" + op + " " + sub + ")", false, false, nil
	case syntax.OpCapture:
		return regLan(re.Sub[0], top)
	case syntax.OpAlternate:
		var alts []string
		for _, s := range re.Sub {
			a, _, _, err := regLan(s, false)
			if err != nil {
				return "", false, false, err
			}
			alts = append(alts, a)
		}
		return "(re.union " + strings.Join(alts, " ") + ")", false, false, nil
	case syntax.OpConcat:
		subs := re.Sub
		begin, end := false, false
		if top && len(subs) > 0 && (subs[0].Op == syntax.OpBeginText || subs[0].Op == syntax.OpBeginLine) {
			begin = true
			subs = subs[1:]
		}
		if top && len(subs) > 0 && (subs[len(subs)-1].Op == syntax.OpEndText) {
			end = true
			subs = subs[:len(subs)-1]
		}
		var parts []string
		for _, s := range subs {
			a, _, _, err := regLan(s, false)
			if err != nil {
				return "", false, false, err
			}
			parts = append(parts, a)
		}
		if len(parts) == 0 {
			return `(str.to_re "")`, begin, end, nil
		}
		if len(parts) == 1 {
			return parts[0], begin, end, nil
		}
		return "(re.++ " + strings.Join(parts, " ") + ")", begin, end, nil
	case syntax.OpBeginText:
		if top {
			return `(str.to_re "")`, true, false, nil
		}
	case syntax.OpEndText:
		if top {
			return `(str.to_re "")`, false, true, nil
		}
	}
	return "", false, false, fmt.Errorf("unsupported regexp construct %v in %q", re.Op, re.String())
}
