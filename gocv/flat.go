package main

// Flattening of Go types into SMT leaves.

import (
	"fmt"
	"go/types"
	"strings"
)

type Leaf struct {
	Path string     // dotted field path inside the value ("" for scalars)
	Sort Sort
	T    types.Type // Go type of the leaf (for range assumptions)
	Part string     // for slices: "arr","off","len"
}

type Flattener struct {
	cache     map[string][]Leaf
	transparentPkgs map[string]bool // package paths whose structs are transparent
	transparentTypes map[string]bool
	strTheory bool
}

func newFlattener() *Flattener {
	return &Flattener{cache: map[string][]Leaf{}, transparentPkgs: map[string]bool{}, transparentTypes: map[string]bool{
		"google.golang.org/grpc/balancer.PickInfo":          true,
		"google.golang.org/grpc/balancer.DoneInfo":          true,
		"google.golang.org/grpc/balancer.PickResult":        true,
		"google.golang.org/grpc/balancer.SubConnState":      true,
		"google.golang.org/grpc/balancer.State":             true,
		"google.golang.org/grpc/balancer.ClientConnState":   true,
		"google.golang.org/grpc/balancer.NewSubConnOptions": true,
		"google.golang.org/grpc/resolver.State":             true,
		"google.golang.org/grpc/balancer.BuildOptions":      false,
	}}
}

func typeKey(t types.Type) string {
	return types.TypeString(t, nil)
}

func shortTypeName(t types.Type) string {
	s := types.TypeString(t, func(p *types.Package) string { return p.Name() })
	return smtName(s)
}

func isLockType(t types.Type) bool {
	if n, ok := t.(*types.Named); ok && n.Obj().Pkg() != nil && n.Obj().Pkg().Path() == "sync" {
		switch n.Obj().Name() {
		case "Mutex", "RWMutex":
			return true
		}
	}
	return false
}

func (f *Flattener) isTransparent(n *types.Named) bool {
	if n.Obj().Pkg() == nil {
		return false
	}
	if f.transparentPkgs[n.Obj().Pkg().Path()] {
		return true
	}
	return f.transparentTypes[n.Obj().Pkg().Path()+"."+n.Obj().Name()]
}

func (f *Flattener) opaqueSort(t types.Type) Sort {
	return "U_" + shortTypeName(t)
}

// leaves returns the flattening of t.
func (f *Flattener) leaves(t types.Type) []Leaf {
	k := typeKey(t)
	if ls, ok := f.cache[k]; ok {
		return ls
	}
	ls := f.leaves0(t)
	f.cache[k] = ls
	return ls
}

func (f *Flattener) leaves0(t types.Type) []Leaf {
	if isLockType(t) {
		return nil
	}
	switch u := t.Underlying().(type) {
	case *types.Basic:
		switch {
		case u.Info()&types.IsBoolean != 0:
			return []Leaf{{Sort: SBool, T: t}}
		case u.Info()&types.IsInteger != 0:
			return []Leaf{{Sort: SInt, T: t}}
		case u.Info()&types.IsFloat != 0:
			return []Leaf{{Sort: SFP, T: t}}
		case u.Info()&types.IsString != 0:
			return []Leaf{{Sort: f.strSort(), T: t}}
		case u.Kind() == types.UnsafePointer:
			return []Leaf{{Sort: SInt, T: t}}
		case u.Kind() == types.UntypedNil:
			return []Leaf{{Sort: SInt, T: t}}
		}
		return []Leaf{{Sort: f.opaqueSort(t), T: t}}
	case *types.Pointer, *types.Interface, *types.Map, *types.Chan, *types.Signature:
		return []Leaf{{Sort: SInt, T: t}}
	case *types.Slice:
		return []Leaf{{Sort: SInt, T: t, Part: "arr"}, {Sort: SInt, T: t, Part: "off"}, {Sort: SInt, T: t, Part: "len"}}
	case *types.Array:
		return []Leaf{{Sort: f.opaqueSort(t), T: t}}
	case *types.Struct:
		transparent := false
		if n, ok := t.(*types.Named); ok {
			transparent = f.isTransparent(n)
		} else {
			transparent = true // anonymous struct
		}
		if !transparent {
			return []Leaf{{Sort: f.opaqueSort(t), T: t}}
		}
		var out []Leaf
		for i := 0; i < u.NumFields(); i++ {
			fl := u.Field(i)
			for _, l := range f.leaves(fl.Type()) {
				p := fl.Name()
				if l.Path != "" {
					p += "." + l.Path
				}
				if l.Part != "" && l.Path == "" {
					// keep Part
				}
				out = append(out, Leaf{Path: p, Sort: l.Sort, T: l.T, Part: l.Part})
			}
		}
		return out
	case *types.Tuple:
		var out []Leaf
		for i := 0; i < u.Len(); i++ {
			out = append(out, f.leaves(u.At(i).Type())...)
		}
		return out
	case *types.TypeParam:
		return []Leaf{{Sort: f.opaqueSort(t), T: t}}
	}
	panic(fmt.Sprintf("leaves: unhandled type %s (%T)", t, t.Underlying()))
}

func (f *Flattener) strSort() Sort {
	if f.strTheory {
		return "String"
	}
	return SStr
}

// fieldRange returns [lo,hi) of field index i in the flattening of struct type st (named or not).
func (f *Flattener) fieldRange(st types.Type, i int) (int, int) {
	u := st.Underlying().(*types.Struct)
	lo := 0
	for j := 0; j < i; j++ {
		lo += len(f.leaves(u.Field(j).Type()))
	}
	return lo, lo + len(f.leaves(u.Field(i).Type()))
}

func leafSuffix(l Leaf) string {
	s := l.Path
	if l.Part != "" {
		if s != "" {
			s += "."
		}
		s += "$" + l.Part
	}
	return s
}

// zero returns the zero value leaves of t.
func (f *Flattener) zero(c *Ctx, t types.Type) []string {
	var out []string
	for _, l := range f.leaves(t) {
		out = append(out, f.zeroLeaf(c, l))
	}
	return out
}

func (f *Flattener) zeroLeaf(c *Ctx, l Leaf) string {
	switch l.Sort {
	case SInt:
		return "0"
	case SBool:
		return "false"
	case SFP:
		return "(_ +zero 11 53)"
	case "String":
		return `""`
	case SStr:
		return c.strLit("")
	}
	// opaque: a distinguished zero constant per sort
	return c.constant("zero_"+l.Sort, l.Sort)
}

// intRange returns (lo, hi, ok) for integer types.
func intRange(t types.Type) (string, string, bool) {
	b, ok := t.Underlying().(*types.Basic)
	if !ok || b.Info()&types.IsInteger == 0 {
		return "", "", false
	}
	switch b.Kind() {
	case types.Int8:
		return "(- 128)", "127", true
	case types.Int16:
		return "(- 32768)", "32767", true
	case types.Int32:
		return "(- 2147483648)", "2147483647", true
	case types.Int, types.Int64:
		return "(- 9223372036854775808)", "9223372036854775807", true
	case types.Uint8:
		return "0", "255", true
	case types.Uint16:
		return "0", "65535", true
	case types.Uint32:
		return "0", "4294967295", true
	case types.Uint, types.Uint64, types.Uintptr:
		return "0", "18446744073709551615", true
	}
	return "", "", false
}

func intBits(t types.Type) (bits int, signed bool) {
	b := t.Underlying().(*types.Basic)
	switch b.Kind() {
	case types.Int8:
		return 8, true
	case types.Int16:
		return 16, true
	case types.Int32:
		return 32, true
	case types.Int, types.Int64:
		return 64, true
	case types.Uint8:
		return 8, false
	case types.Uint16:
		return 16, false
	case types.Uint32:
		return 32, false
	case types.Uint, types.Uint64, types.Uintptr:
		return 64, false
	}
	return 64, true
}

var pow2 = map[int]string{8: "256", 16: "65536", 32: "4294967296", 64: "18446744073709551616"}
var pow2h = map[int]string{8: "128", 16: "32768", 32: "2147483648", 64: "9223372036854775808"}

// wrapAdd wraps the result r of a single add/sub of in-range operands (|r| < 2^(bits+1)) without mod.
func wrapLinear(r string, t types.Type) string {
	lo, hi, ok := intRange(t)
	if !ok {
		return r
	}
	bits, _ := intBits(t)
	p := pow2[bits]
	return fmt.Sprintf("(let ((r!w %s)) (ite (> r!w %s) (- r!w %s) (ite (< r!w %s) (+ r!w %s) r!w)))", r, hi, p, lo, p)
}

// wrapMod wraps an arbitrary integer into the range of t.
func wrapMod(r string, t types.Type) string {
	_, _, ok := intRange(t)
	if !ok {
		return r
	}
	bits, signed := intBits(t)
	p := pow2[bits]
	if !signed {
		return fmt.Sprintf("(mod %s %s)", r, p)
	}
	h := pow2h[bits]
	return fmt.Sprintf("(- (mod (+ %s %s) %s) %s)", r, h, p, h)
}

func inRange(x string, t types.Type) string {
	lo, hi, ok := intRange(t)
	if !ok {
		return "true"
	}
	return fmt.Sprintf("(and (<= %s %s) (<= %s %s))", lo, x, x, hi)
}

func isNumLit(s string) bool {
	if s == "" {
		return false
	}
	if strings.HasPrefix(s, "(- ") && strings.HasSuffix(s, ")") {
		s = s[3 : len(s)-1]
	}
	for _, r := range s {
		if r < '0' || r > '9' {
			return false
		}
	}
	return true
}
