package main

// SMT context: symbol table, definitions, emission of one-goal files, solver racing.

import (
	"bytes"
	"context"
	"fmt"
	"os"
	"os/exec"
	"path/filepath"
	"regexp"
	"sort"
	"strings"
	"sync"
	"time"
)

type Sort = string

const (
	SInt  Sort = "Int"
	SBool Sort = "Bool"
	SStr  Sort = "Str"
	SFP   Sort = "(_ FloatingPoint 11 53)"
)

// decl is one declared or defined symbol.
type decl struct {
	name string
	sort Sort   // result sort
	args string // "" for constants, else "(Int Int)" for declare-fun
	body string // "" => declare, else define-fun body
	deps []string
	raw  string // raw command (axioms, define-fun-rec, sorts); name is synthetic
	seq  int
}

// Ctx is the symbol table for one function's verification.
type Ctx struct {
	decls   map[string]*decl
	order   []*decl
	nfresh  int
	sorts   map[string]bool // uninterpreted sorts declared
	axioms  []*decl         // global axioms (always included if their deps are in cone)
	strLits map[string]string
	strTheory bool
	inQuant int
}

func newCtx() *Ctx {
	return &Ctx{decls: map[string]*decl{}, sorts: map[string]bool{}, strLits: map[string]string{}}
}

var symRe = regexp.MustCompile(`[A-Za-z_$!~][A-Za-z0-9_$!~.@]*`)

func (c *Ctx) depsOf(s string) []string {
	var out []string
	seen := map[string]bool{}
	for _, tok := range symRe.FindAllString(s, -1) {
		if seen[tok] {
			continue
		}
		if _, ok := c.decls[tok]; ok {
			seen[tok] = true
			out = append(out, tok)
		}
	}
	return out
}

func (c *Ctx) add(d *decl) {
	d.seq = len(c.order)
	c.decls[d.name] = d
	c.order = append(c.order, d)
}

func (c *Ctx) sortDeps(s Sort) []string {
	var out []string
	for _, tok := range symRe.FindAllString(s, -1) {
		if strings.HasPrefix(tok, "U_") || tok == "Str" {
			c.declareSort(tok)
		}
		if c.sorts[tok] {
			out = append(out, "sort:"+tok)
		}
	}
	return out
}

// declareSort declares an uninterpreted sort once.
func (c *Ctx) declareSort(name string) {
	if c.sorts[name] {
		return
	}
	c.sorts[name] = true
	c.add(&decl{name: "sort:" + name, raw: fmt.Sprintf("(declare-sort %s 0)", name)})
}

func smtName(s string) string {
	var b strings.Builder
	for _, r := range s {
		switch {
		case r >= 'a' && r <= 'z', r >= 'A' && r <= 'Z', r >= '0' && r <= '9', r == '_', r == '$', r == '!', r == '.':
			b.WriteRune(r)
		case r == '*':
			b.WriteString("P")
		case r == '[' || r == ']':
			b.WriteString("_")
		case r == '/':
			b.WriteString(".")
		default:
			b.WriteString("_")
		}
	}
	return b.String()
}

// fresh declares a fresh constant of the given sort.
func (c *Ctx) fresh(hint string, s Sort) string {
	c.nfresh++
	n := fmt.Sprintf("%s!%d", smtName(hint), c.nfresh)
	c.add(&decl{name: n, sort: s, deps: c.sortDeps(s)})
	return n
}

// constant declares (once) a named constant.
func (c *Ctx) constant(name string, s Sort) string {
	name = smtName(name)
	if _, ok := c.decls[name]; !ok {
		c.add(&decl{name: name, sort: s, deps: c.sortDeps(s)})
	}
	return name
}

// fun declares (once) an uninterpreted function.
func (c *Ctx) fun(name string, args []Sort, res Sort) string {
	name = smtName(name)
	if _, ok := c.decls[name]; !ok {
		deps := c.sortDeps(res)
		for _, a := range args {
			deps = append(deps, c.sortDeps(a)...)
		}
		c.add(&decl{name: name, sort: res, args: "(" + strings.Join(args, " ") + ")", deps: deps})
	}
	return name
}

// define introduces a named definition for body (sharing); returns the name.
func (c *Ctx) define(hint string, s Sort, body string) string {
	if c.inQuant > 0 {
		return body // bound variables may occur: no top-level naming
	}
	// a value with boolean structure must not be a macro: it may end up inside a quantifier pattern, where `ite` is
	// not allowed (z3 drops such patterns, cvc5 rejects them)
	if s != SBool && strings.Contains(body, "(ite ") {
		return c.defineEq(hint, s, body)
	}
	// small bodies are not worth naming
	if len(body) < 40 && !strings.Contains(body, "\n") {
		return body
	}
	if strings.HasPrefix(s, "(Array") {
		return c.defineEq(hint, s, body)
	}
	c.nfresh++
	n := fmt.Sprintf("%s!%d", smtName(hint), c.nfresh)
	c.add(&decl{name: n, sort: s, body: body, deps: append(c.depsOf(body), c.sortDeps(s)...)})
	return n
}

// defineEq introduces a constant constrained by an equation (instead of a macro), so that the
// name can occur inside quantifier patterns even when the body has boolean structure.
func (c *Ctx) defineEq(hint string, s Sort, body string) string {
	c.nfresh++
	n := fmt.Sprintf("%s!%d", smtName(hint), c.nfresh)
	c.add(&decl{name: n, sort: s, deps: c.sortDeps(s)})
	c.axiom("def:"+n, "(= "+n+" "+body+")", n)
	return n
}

// arrayKeySort returns the index sort of "(Array K V)".
func arrayKeySort(s Sort) (string, bool) {
	if !strings.HasPrefix(s, "(Array ") {
		return "", false
	}
	rest := s[len("(Array "):]
	if strings.HasPrefix(rest, "(") {
		d := 0
		for i, r := range rest {
			if r == '(' {
				d++
			} else if r == ')' {
				d--
				if d == 0 {
					return rest[:i+1], true
				}
			}
		}
		return "", false
	}
	i := strings.IndexByte(rest, ' ')
	if i < 0 {
		return "", false
	}
	return rest[:i], true
}

// splitIte splits "(ite c a b)" into its three top-level arguments.
func splitIte(body string) (c, a, b string, ok bool) {
	if !strings.HasPrefix(body, "(ite ") || !strings.HasSuffix(body, ")") {
		return
	}
	inner := body[5 : len(body)-1]
	var parts []string
	d, start := 0, 0
	for i, r := range inner {
		switch r {
		case '(':
			d++
		case ')':
			d--
		case ' ':
			if d == 0 {
				parts = append(parts, inner[start:i])
				start = i + 1
			}
		}
	}
	parts = append(parts, inner[start:])
	if len(parts) != 3 {
		return
	}
	return parts[0], parts[1], parts[2], true
}

// defineAlways names even small bodies (for pcs).
func (c *Ctx) defineAlways(hint string, s Sort, body string) string {
	if strings.HasPrefix(s, "(Array") {
		return c.defineEq(hint, s, body)
	}
	c.nfresh++
	n := fmt.Sprintf("%s!%d", smtName(hint), c.nfresh)
	c.add(&decl{name: n, sort: s, body: body, deps: append(c.depsOf(body), c.sortDeps(s)...)})
	return n
}

// rawCmd adds a raw command (define-fun with args, define-fun-rec...) under a symbol name.
func (c *Ctx) rawCmd(name string, cmd string) {
	if _, ok := c.decls[name]; ok {
		return
	}
	d := &decl{name: name, raw: cmd}
	c.add(d)
	d.deps = nil
	for _, t := range c.depsOf(cmd) {
		if t != name {
			d.deps = append(d.deps, t)
		}
	}
	for _, tok := range symRe.FindAllString(cmd, -1) {
		if c.sorts[tok] {
			d.deps = append(d.deps, "sort:"+tok)
		}
	}
}

// axiom adds a global axiom; it is included in a query when all symbols in `when` are in the cone.
func (c *Ctx) axiom(key string, body string, when ...string) {
	name := "axiom:" + key
	if _, ok := c.decls[name]; ok {
		return
	}
	d := &decl{name: name, raw: "(assert " + body + ")"}
	d.deps = c.depsOf(body)
	for _, tok := range symRe.FindAllString(body, -1) {
		if c.sorts[tok] {
			d.deps = append(d.deps, "sort:"+tok)
		}
	}
	d.sort = strings.Join(when, " ")
	c.add(d)
	c.axioms = append(c.axioms, d)
}

// strLit interns a string literal.
func (c *Ctx) strLit(v string) string {
	if c.strTheory {
		var b strings.Builder
		b.WriteByte('"')
		for _, r := range v {
			if r == '"' {
				b.WriteString(`""`)
			} else if r < 32 || r > 126 || r == '\\' {
				fmt.Fprintf(&b, `\u{%x}`, r)
			} else {
				b.WriteRune(r)
			}
		}
		b.WriteByte('"')
		return b.String()
	}
	if n, ok := c.strLits[v]; ok {
		return n
	}
	c.declareSort("Str")
	n := fmt.Sprintf("strlit!%d", len(c.strLits))
	c.strLits[v] = n
	c.add(&decl{name: n, sort: SStr, deps: []string{"sort:Str"}})
	// distinctness from all previous literals and length
	for ov, on := range c.strLits {
		if on != n {
			a, b := on, n
			if a > b {
				a, b = b, a
			}
			_ = ov
			c.axiom("strdist:"+a+":"+b, fmt.Sprintf("(distinct %s %s)", a, b), a, b)
		}
	}
	sl := c.fun("strlen", []Sort{SStr}, SInt)
	c.axiom("strlen:"+n, fmt.Sprintf("(= (%s %s) %d)", sl, n, len(v)), n)
	return n
}

// cone computes the set of decls needed by the given terms.
func (c *Ctx) cone(terms ...string) []*decl {
	need := map[string]bool{}
	var stack []string
	push := func(n string) {
		if !need[n] {
			need[n] = true
			stack = append(stack, n)
		}
	}
	for _, t := range terms {
		for _, d := range c.depsOf(t) {
			push(d)
		}
		for _, tok := range symRe.FindAllString(t, -1) {
			if c.sorts[tok] {
				push("sort:" + tok)
			}
		}
	}
	for {
		for len(stack) > 0 {
			n := stack[len(stack)-1]
			stack = stack[:len(stack)-1]
			d := c.decls[n]
			if d == nil {
				continue
			}
			for _, dep := range d.deps {
				push(dep)
			}
		}
		// axioms whose trigger symbols are all in the cone
		added := false
		for _, ax := range c.axioms {
			if need[ax.name] {
				continue
			}
			ok := true
			for _, w := range strings.Fields(ax.sort) {
				if !need[w] {
					ok = false
					break
				}
			}
			if ok {
				push(ax.name)
				added = true
			}
		}
		if !added && len(stack) == 0 {
			break
		}
	}
	var out []*decl
	for _, d := range c.order {
		if need[d.name] {
			out = append(out, d)
		}
	}
	return out
}

// emit renders a one-goal SMT file: definitions in the cone, the hypotheses, and the negated goal.
func (c *Ctx) emit(hyps []string, goal string, negate bool) string {
	terms := append([]string{goal}, hyps...)
	ds := c.cone(terms...)
	var b bytes.Buffer
	b.WriteString("(set-logic ALL)\n")
	if !c.strTheory {
		// nothing
	}
	for _, d := range ds {
		switch {
		case d.raw != "":
			b.WriteString(d.raw)
		case d.body != "":
			fmt.Fprintf(&b, "(define-fun %s () %s %s)", d.name, d.sort, d.body)
		case d.args != "":
			fmt.Fprintf(&b, "(declare-fun %s %s %s)", d.name, d.args, d.sort)
		default:
			fmt.Fprintf(&b, "(declare-const %s %s)", d.name, d.sort)
		}
		b.WriteByte('\n')
	}
	for _, h := range hyps {
		fmt.Fprintf(&b, "(assert %s)\n", h)
	}
	if negate {
		fmt.Fprintf(&b, "(assert (not %s))\n", goal)
	} else {
		fmt.Fprintf(&b, "(assert %s)\n", goal)
	}
	b.WriteString("(check-sat)\n")
	return b.String()
}

// ---------- helpers to build terms ----------

func and(xs ...string) string {
	var ys []string
	for _, x := range xs {
		if x == "true" || x == "" {
			continue
		}
		if x == "false" {
			return "false"
		}
		ys = append(ys, x)
	}
	switch len(ys) {
	case 0:
		return "true"
	case 1:
		return ys[0]
	}
	return "(and " + strings.Join(ys, " ") + ")"
}

func or(xs ...string) string {
	var ys []string
	for _, x := range xs {
		if x == "false" || x == "" {
			continue
		}
		if x == "true" {
			return "true"
		}
		ys = append(ys, x)
	}
	switch len(ys) {
	case 0:
		return "false"
	case 1:
		return ys[0]
	}
	return "(or " + strings.Join(ys, " ") + ")"
}

func not(x string) string {
	switch x {
	case "true":
		return "false"
	case "false":
		return "true"
	}
	if strings.HasPrefix(x, "(not ") && balanced(x[5:len(x)-1]) {
		return x[5 : len(x)-1]
	}
	return "(not " + x + ")"
}

func balanced(s string) bool {
	d := 0
	for _, r := range s {
		if r == '(' {
			d++
		} else if r == ')' {
			d--
			if d < 0 {
				return false
			}
		}
	}
	return d == 0
}

func implies(a, b string) string {
	if a == "true" {
		return b
	}
	if a == "false" || b == "true" {
		return "true"
	}
	return "(=> " + a + " " + b + ")"
}

func ite(c, a, b string) string {
	if c == "true" {
		return a
	}
	if c == "false" {
		return b
	}
	if a == b {
		return a
	}
	return "(ite " + c + " " + a + " " + b + ")"
}

func eq(a, b string) string {
	if a == b {
		return "true"
	}
	return "(= " + a + " " + b + ")"
}

func sel(a, i string) string        { return "(select " + a + " " + i + ")" }
func store(a, i, v string) string   { return "(store " + a + " " + i + " " + v + ")" }
func arrSort(k, v Sort) Sort        { return "(Array " + k + " " + v + ")" }
func app(f string, args ...string) string {
	if len(args) == 0 {
		return f
	}
	return "(" + f + " " + strings.Join(args, " ") + ")"
}

func intLit(v string) string {
	if strings.HasPrefix(v, "-") {
		return "(- " + v[1:] + ")"
	}
	return v
}

// ---------- solver racing ----------

type SolveResult struct {
	Status  string // unsat | sat | unknown | timeout | error
	Solver  string
	TimeS   float64
	Output  string
	Tried   []string
	SatSMT  string // the (case-split) query that was found satisfiable, when it differs from the whole query
}

var solverCmds = []struct {
	name string
	argv func(file string, tmo int) []string
}{
	{"z3-new", func(f string, t int) []string { return []string{"z3-new", fmt.Sprintf("-T:%d", t), f} }},
	{"z3", func(f string, t int) []string { return []string{"z3", fmt.Sprintf("-T:%d", t), f} }},
	{"cvc5", func(f string, t int) []string { return []string{"cvc5", fmt.Sprintf("--tlimit=%d", t*1000), f} }},
}

func runOne(name string, argv []string, tmo int) (string, string, float64) {
	t0 := time.Now()
	ctx, cancel := context.WithTimeout(context.Background(), time.Duration(tmo+2)*time.Second)
	defer cancel()
	cmd := exec.CommandContext(ctx, argv[0], argv[1:]...)
	out, _ := cmd.CombinedOutput()
	el := time.Since(t0).Seconds()
	s := strings.TrimSpace(string(out))
	first := s
	if i := strings.IndexByte(s, '\n'); i >= 0 {
		first = s[:i]
	}
	switch first {
	case "unsat", "sat", "unknown":
		return first, s, el
	case "timeout":
		return "timeout", s, el
	}
	if ctx.Err() != nil || strings.Contains(s, "timeout") || strings.Contains(s, "interrupted") {
		return "timeout", s, el
	}
	return "error", s, el
}

// solve races the solvers sequentially (cheap ones first) until a decisive answer.
// mode "first": stop at first unsat/sat. mode "all": run all and demand agreement.
func solve(file string, tmo int, mode string) SolveResult {
	var res SolveResult
	res.Status = "unknown"
	decided := ""
	for i, sc := range solverCmds {
		if mode == "reach" && i > 0 {
			break // reachability guard: one solver, short timeout; only `unsat` matters
		}
		st, out, el := runOne(sc.name, sc.argv(file, tmo), tmo)
		res.Tried = append(res.Tried, fmt.Sprintf("%s:%s:%.2fs", sc.name, st, el))
		res.TimeS += el
		if st == "error" {
			res.Output += sc.name + ": " + firstLines(out, 3) + "\n"
			continue
		}
		if st == "unsat" || st == "sat" {
			if decided == "" {
				decided = st
				res.Status = st
				res.Solver = sc.name
				if mode == "first" {
					return res
				}
			} else if decided != st {
				res.Status = "error"
				res.Output += "SOLVER DISAGREEMENT\n"
				return res
			}
		} else if decided == "" {
			res.Status = st
		}
	}
	return res
}

func firstLines(s string, n int) string {
	ls := strings.Split(s, "\n")
	if len(ls) > n {
		ls = ls[:n]
	}
	return strings.Join(ls, "\n")
}

// getModel reruns with model production on the solver that said sat.
func getModel(smt string, solver string, tmo int, dir string, base string) string {
	body := strings.Replace(smt, "(check-sat)\n", "(check-sat)\n(get-model)\n", 1)
	body = "(set-option :produce-models true)\n" + body
	f := filepath.Join(dir, base+".model.smt2")
	os.WriteFile(f, []byte(body), 0o644)
	for _, sc := range solverCmds {
		if sc.name == solver {
			_, out, _ := runOne(sc.name, sc.argv(f, tmo), tmo)
			return out
		}
	}
	return ""
}

// ---------- parallel pool ----------

func parallelDo(n int, workers int, f func(i int)) {
	var wg sync.WaitGroup
	ch := make(chan int)
	for w := 0; w < workers; w++ {
		wg.Add(1)
		go func() {
			defer wg.Done()
			for i := range ch {
				f(i)
			}
		}()
	}
	for i := 0; i < n; i++ {
		ch <- i
	}
	close(ch)
	wg.Wait()
}

func sortedKeys[V any](m map[string]V) []string {
	ks := make([]string, 0, len(m))
	for k := range m {
		ks = append(ks, k)
	}
	sort.Strings(ks)
	return ks
}

var iteCondRe = regexp.MustCompile(`\(ite (pc![0-9]+) `)

// solveAdaptive: first the whole query with a short timeout; if undecided, case-split on the conditions of the
// state merges (latest first) -- with a condition fixed the solver simplifies the merged arrays away --; if leaves
// stay undecided, fall back to the full race on the whole query.
func solveAdaptive(file string, smt string, tmo int, mode string) SolveResult {
	short := 2
	if tmo < short {
		short = tmo
	}
	if strings.Contains(smt, "FloatingPoint") || strings.Contains(smt, "str.in_re") {
		// floating point and regular-language goals: cvc5 is far quicker here than z3's bit-blasting / sequence solver
		for _, sc := range solverCmds {
			if sc.name != "cvc5" {
				continue
			}
			// these goals take seconds, not milliseconds, and slow down a lot on a loaded machine: generous limit
			ft := tmo * 4
			st, _, el := runOne(sc.name, sc.argv(file, ft), ft)
			if st == "unsat" || st == "sat" {
				return SolveResult{Status: st, Solver: sc.name, TimeS: el, Tried: []string{fmt.Sprintf("%s:%s:%.2fs", sc.name, st, el)}}
			}
		}
	}
	first := solverCmds[0]
	st, out, el := runOne(first.name, first.argv(file, short), short)
	res := SolveResult{Status: st, Solver: first.name, TimeS: el, Tried: []string{fmt.Sprintf("%s:%s:%.2fs", first.name, st, el)}}
	if (st == "unsat" || st == "sat") && mode == "first" {
		return res
	}
	if st == "error" {
		res.Output = firstLines(out, 3)
	}
	// the other solvers, briefly (cvc5 decides at once many goals on which z3's quantifier instantiation diverges)
	for _, sc := range solverCmds[1:] {
		if sc.name == "z3" && strings.Contains(smt, "(_ FloatingPoint") {
			continue
		}
		st2, _, el2 := runOne(sc.name, sc.argv(file, short), short)
		res.TimeS += el2
		res.Tried = append(res.Tried, fmt.Sprintf("%s:%s:%.2fs", sc.name, st2, el2))
		if (st2 == "unsat" || st2 == "sat") && mode == "first" {
			res.Status, res.Solver = st2, sc.name
			return res
		}
	}
	// collect merge conditions
	var conds []string
	seen := map[string]bool{}
	for _, m := range iteCondRe.FindAllStringSubmatch(smt, -1) {
		if !seen[m[1]] {
			seen[m[1]] = true
			conds = append(conds, m[1])
		}
	}
	if len(conds) > 0 && st != "error" && (st != "unsat" && st != "sat") {
		base := strings.Replace(smt, "(check-sat)\n", "", 1)
		leaves, budget := 0, 48
		var total float64
		var rec func(assumps []string, k int) string
		rec = func(assumps []string, k int) string {
			// k: index into conds (from the end)
			if leaves >= budget {
				return "unknown"
			}
			leaves++
			q := base + strings.Join(assumps, "") + "(check-sat)\n"
			f := fmt.Sprintf("%s.split%d.smt2", file, leaves)
			os.WriteFile(f, []byte(q), 0o644)
			st, _, el := runOne(first.name, first.argv(f, short), short)
			os.Remove(f)
			total += el
			if st == "sat" {
				res.SatSMT = q
			}
			if st == "unsat" || st == "sat" {
				return st
			}
			if k < 0 || len(assumps) >= 6 {
				return "unknown"
			}
			c := conds[k]
			a := rec(append(append([]string(nil), assumps...), "(assert "+c+")\n"), k-1)
			if a == "sat" {
				return "sat"
			}
			b := rec(append(append([]string(nil), assumps...), "(assert (not "+c+"))\n"), k-1)
			if b == "sat" {
				return "sat"
			}
			if a == "unsat" && b == "unsat" {
				return "unsat"
			}
			return "unknown"
		}
		k := len(conds) - 1
		a := rec([]string{"(assert " + conds[k] + ")\n"}, k-1)
		b := "unknown"
		if a != "sat" {
			b = rec([]string{"(assert (not " + conds[k] + "))\n"}, k-1)
		}
		res.TimeS += total
		res.Tried = append(res.Tried, fmt.Sprintf("split:%d-leaves:%.2fs", leaves, total))
		switch {
		case a == "sat" || b == "sat":
			res.Status, res.Solver = "sat", first.name+"+split"
			return res
		case a == "unsat" && b == "unsat":
			res.Status, res.Solver = "unsat", first.name+"+split"
			return res
		}
	}
	r2 := solve(file, tmo, mode)
	r2.TimeS += res.TimeS
	r2.Tried = append(res.Tried, r2.Tried...)
	return r2
}
