package main

// Calls: builtins, sync/atomic models, contracts, inlining, externs, locks, protection classes.

import (
	"os"
	"fmt"
	"go/token"
	"go/types"
	"sort"
	"strings"

	"golang.org/x/tools/go/ssa"
)

type heldLock struct {
	key string // heap key of the lock class
	ref string
	class string // "pkgpath.T.field"
}

// autoTags: property tags of automatic obligations, by kind and by the source file of the *top-level* function
// being verified (directive `autotag <kind> <file-suffix> <tags...>` in the contract files).
func (e *Engine) autoTags(kind string, fn *ssa.Function) []string {
	top := e.top
	for top.Parent() != nil {
		top = top.Parent()
	}
	file := ""
	if top.Pos().IsValid() && top.Synthetic == "" {
		file = e.w.fset.Position(top.Pos()).Filename
	} else if rt := wrapperRecvType(top); rt != nil {
		// synthesized wrapper of a promoted method: the file that declares the receiver type
		if p, ok := rt.(*types.Pointer); ok {
			rt = p.Elem()
		}
		if n, ok := rt.(*types.Named); ok && n.Obj().Pos().IsValid() {
			file = e.w.fset.Position(n.Obj().Pos()).Filename
		}
	}
	key := kind + "|" + file + "|" + shortFnName(top)
	if t, ok := e.w.autoTagCache[key]; ok {
		return t
	}
	var tags []string
	seen := map[string]bool{}
	topPkg := ""
	if top.Pkg != nil {
		topPkg = top.Pkg.Pkg.Path()
	} else if rt := wrapperRecvType(top); rt != nil {
		if p, ok := rt.(*types.Pointer); ok {
			rt = p.Elem()
		}
		if n, ok := rt.(*types.Named); ok && n.Obj().Pkg() != nil {
			topPkg = n.Obj().Pkg().Path()
		}
	}
	for _, at := range e.w.spec.AutoTags {
		if at.Kind != kind || at.Pkg != topPkg {
			continue
		}
		if (at.Fn != "" && at.Fn == shortFnName(top)) || (at.Fn == "" && (at.File == "*" || strings.HasSuffix(file, at.File))) {
			for _, t := range at.Tags {
				if !seen[t] {
					seen[t] = true
					tags = append(tags, t)
				}
			}
		}
	}
	e.w.autoTagCache[key] = tags
	return tags
}

func (e *Engine) noteFeature(s string) {
	for _, f := range e.features {
		if f == s {
			return
		}
	}
	e.features = append(e.features, s)
}

// ---------- lock model ----------

func lockClassOf(loc *Loc) string {
	n, ok := loc.S.(*types.Named)
	if !ok {
		return typeKey(loc.S) + "." + loc.Path
	}
	pp := ""
	if n.Obj().Pkg() != nil {
		pp = n.Obj().Pkg().Path() + "."
	}
	return pp + n.Obj().Name() + "." + loc.Path
}

func (fx *FnExec) lockOp(st *State, recv *Val, op string, pos token.Pos) {
	e := fx.e
	loc := recv.Loc
	if loc == nil || loc.Kind != LField {
		e.outsideSubset("lock operation on a mutex that is not a struct field of a heap object")
		return
	}
	class := lockClassOf(loc)
	key := e.keyLock(loc.S, loc.Path)
	cur := sel(e.heapGet(st, key), loc.Ref)
	tags := e.autoTags("lock", fx.fn)
	short := class[strings.LastIndex(class, "/")+1:]
	for _, t := range e.tracks {
		t.locks[class] = true
	}
	switch op {
	case "Lock", "RLock":
		e.addObl("lock", "noreentry:"+short, tags, st, eq(cur, "0"), pos)
		// lock order: every lock currently held must have a strictly lower level
		lvl := e.w.spec.LockLevel[class]
		for _, h := range e.held(st) {
			if h.class == class && h.ref == loc.Ref {
				continue
			}
			hl := e.w.spec.LockLevel[h.class]
			if hl == 0 || lvl == 0 || hl >= lvl {
				hs := h.class[strings.LastIndex(h.class, "/")+1:]
				e.addObl("lock", "order:"+hs+"<"+short, tags, st, eq(sel(e.heapGet(st, h.key), h.ref), "0"), pos)
			}
		}
		nv := "1"
		if op == "RLock" {
			nv = "2"
		}
		e.acquire(st, class, loc.Ref, fx)
		e.heapWrite(st, key, store(e.heapGet(st, key), loc.Ref, nv), loc.Ref)
		e.pushHeld(st, heldLock{key: key, ref: loc.Ref, class: class})
	case "Unlock", "RUnlock":
		want := "1"
		if op == "RUnlock" {
			want = "2"
		}
		e.addObl("lock", "owned:"+short, tags, st, eq(cur, want), pos)
		if op == "Unlock" {
			fx.release(st, class, loc.Ref, pos)
		}
		e.heapWrite(st, key, store(e.heapGet(st, key), loc.Ref, "0"), loc.Ref)
	}
}

const heldKeyPrefix = "Held|"

// held locks are tracked at meta level inside the state heap map under synthetic keys (merged by union).
func (e *Engine) pushHeld(st *State, h heldLock) {
	k := heldKeyPrefix + h.key + "|" + h.ref + "|" + h.class
	if _, ok := e.heapInfo[k]; !ok {
		e.regHeap(k, SBool, "heldmark", "Held", nil)
	}
	st.heap[k] = "true"
}

func (e *Engine) held(st *State) []heldLock {
	var out []heldLock
	var ks []string
	for k := range st.heap {
		if strings.HasPrefix(k, heldKeyPrefix) {
			ks = append(ks, k)
		}
	}
	sort.Strings(ks)
	for _, k := range ks {
		p := strings.SplitN(k[len(heldKeyPrefix):], "|", 5)
		// key itself contains '|': K|type|path
		if len(p) == 5 {
			out = append(out, heldLock{key: p[0] + "|" + p[1] + "|" + p[2], ref: p[3], class: p[4]})
		}
	}
	return out
}

// guardedKeys returns the heap keys havocked when a lock of the class is acquired.
func (e *Engine) guardedKeys(class string) []string {
	if ks, ok := e.guardCache[class]; ok {
		return ks
	}
	seen := map[string]bool{}
	var out []string
	add := func(k string) {
		if !seen[k] {
			seen[k] = true
			out = append(out, k)
		}
	}
	var addContent func(t types.Type, depth int)
	addContent = func(t types.Type, depth int) {
		switch u := t.Underlying().(type) {
		case *types.Map:
			add(e.keyMapDom(u))
			add(e.keyMapLen(u))
			_, vl := e.mapSorts(u)
			for i := range vl {
				add(e.keyMapVal(u, i))
			}
		case *types.Slice:
			for i := range e.fl.leaves(u.Elem()) {
				add(e.keyElem(u.Elem(), i))
			}
		}
	}
	var pks []string
	for pk := range e.w.spec.Protects {
		pks = append(pks, pk)
	}
	sort.Strings(pks)
	for _, pk := range pks {
		p := e.w.spec.Protects[pk]
		if p.Class != "guarded_by" || p.Lock != class {
			continue
		}
		tp := e.w.typesPkg(p.Pkg)
		if tp == nil {
			continue
		}
		obj := tp.Scope().Lookup(p.Struct)
		if obj == nil {
			e.specErrors = append(e.specErrors, "protect: unknown type "+p.Struct)
			continue
		}
		lo, hi, ft, _, ok := e.lookupField(obj.Type(), p.Field)
		if !ok {
			e.specErrors = append(e.specErrors, "protect: unknown field "+p.Struct+"."+p.Field)
			continue
		}
		for i := lo; i < hi; i++ {
			add(e.keyField(obj.Type(), i))
		}
		addContent(ft, 0)
	}
	for _, g := range e.w.spec.Guards[class] {
		if g == "chanclosed" {
			add(e.keyChanClosed())
			continue
		}
		for _, k := range e.ghostKeys(g) {
			add(k)
		}
	}
	sort.Strings(out)
	e.guardCache[class] = out
	return out
}

type writeOnceField struct {
	keys []string // heap keys of the field's leaves
	zero string   // zero value of the first leaf (the field is unwritten while its first leaf is zero)
}

// writeOnceFields returns the fields declared `write_once <class>`.
func (e *Engine) writeOnceFields(class string) []writeOnceField {
	if e.woCache == nil {
		e.woCache = map[string][]writeOnceField{}
	}
	if r, ok := e.woCache[class]; ok {
		return r
	}
	var pks []string
	for pk := range e.w.spec.Protects {
		pks = append(pks, pk)
	}
	sort.Strings(pks)
	var out []writeOnceField
	for _, pk := range pks {
		p := e.w.spec.Protects[pk]
		if p.Class != "write_once" || p.Lock != class {
			continue
		}
		tp := e.w.typesPkg(p.Pkg)
		if tp == nil {
			continue
		}
		obj := tp.Scope().Lookup(p.Struct)
		if obj == nil {
			continue
		}
		lo, hi, ft, _, ok := e.lookupField(obj.Type(), p.Field)
		if !ok || hi <= lo {
			continue
		}
		wf := writeOnceField{zero: e.fl.zero(e.c, ft)[0]}
		for i := lo; i < hi; i++ {
			k := e.keyField(obj.Type(), i)
			if hi := e.heapInfo[k]; hi == nil || !strings.HasPrefix(string(hi.sort), "(Array Int ") {
				wf.keys = nil
				break
			}
			wf.keys = append(wf.keys, k)
		}
		if len(wf.keys) > 0 {
			out = append(out, wf)
		}
	}
	e.woCache[class] = out
	return out
}

func (e *Engine) acquire(st *State, class string, ref string, fx *FnExec) {
	keys := e.guardedKeys(class)
	allocBefore := e.heapGet(st, e.keyAlloc())
	var before *State
	if len(e.w.spec.Mono[class]) > 0 {
		before = st.clone()
	}
	private := false
	if b, ok := e.refBirth[ref]; ok && b > 0 && len(e.escaped) == 0 {
		// the lock of an object that this activation allocated and has not handed to anybody (a constructor taking
		// its own lock): no other goroutine can have held it, so nothing it guards has changed, and nobody has
		// established its invariants yet: neither havoc nor assumption; the release still has to establish them
		private = true
	}
	if private {
		keys = nil
	}
	for _, k := range keys {
		e.heapHavoc(st, k)
	}
	// write_once fields of this lock: another holder may have written them (from nil) meanwhile, so what this goroutine
	// read in an earlier critical section is only known to persist where it was non-nil (a written value stays)
	if !private {
		for _, wf := range e.writeOnceFields(class) {
			olds := make([]string, len(wf.keys))
			for i, k := range wf.keys {
				olds[i] = e.heapGet(st, k)
				e.heapHavoc(st, k)
			}
			for i, k := range wf.keys {
				n := e.heapGet(st, k)
				e.assume(st, fmt.Sprintf("(forall ((r!q Int)) (! (=> (not (= (select %s r!q) %s)) (= (select %s r!q) (select %s r!q))) :pattern ((select %s r!q))))", olds[0], wf.zero, n, olds[i], n))
			}
		}
	}
	// other goroutines may have allocated objects meanwhile
	na := e.c.fresh("alloc", SInt)
	st.heap[e.keyAlloc()] = na
	e.assume(st, "(>= "+na+" "+allocBefore+")")
	e.assumeTrackedWF(st)
	// monotone facts survive the havoc: what this goroutine knew before still bounds the new state
	for _, m := range e.w.spec.Mono[class] {
		if private {
			break
		}
		e.assume(st, e.evalClauseOn(m, st, before, ref, fx))
	}
	// assume the lock invariant
	for _, li := range e.w.spec.LockInvs[class] {
		if private {
			break
		}
		g := e.evalClauseOn(li.Clause, st, nil, ref, fx)
		if fl := e.envGuardFor(li.Clause.Tags); fl != "" {
			g = "(=> " + fl + " " + g + ")"
		}
		e.assume(st, g)
	}
	snap := st.clone()
	e.lockOld[class] = snap
	if st.acq == nil && fx != nil && fx.isTop {
		// two-state specs of an atomic function refer to the state at its own first acquire; an acquire inside an
		// inlined helper does not make the caller atomic
		st.acq = snap
		if fx.con != nil {
			for _, gu := range fx.con.OnAcquire {
				env := fx.specEnv(st, snap, nil)
				sv := env.eval(gu.C.Expr)
				if sv == nil {
					continue
				}
				if gu.Assume {
					if len(sv.V.L) == 1 {
						e.assume(st, sv.V.L[0])
					}
					continue
				}
				keys := e.ghostKeys(gu.Ghost)
				if len(keys) == len(sv.V.L) && len(keys) > 0 {
					for i, k := range keys {
						e.heapSet(st, k, sv.V.L[i])
					}
				} else {
					e.specErrors = append(e.specErrors, "onacquire: unknown ghost or shape mismatch: "+gu.Ghost)
				}
			}
			for _, ea := range fx.con.EnvAssume {
				env := fx.specEnv(st, snap, nil)
				sv := env.eval(ea.Expr)
				if sv == nil || len(sv.V.L) != 1 {
					continue
				}
				if fl := e.envGuardFor(fx.clauseTags(ea)); fl != "" {
					e.assume(st, "(=> "+fl+" "+sv.V.L[0]+")")
				}
			}
		}
	}
}

func (fx *FnExec) release(st *State, class string, ref string, pos token.Pos) {
	e := fx.e
	for _, li := range e.w.spec.LockInvs[class] {
		g := e.evalClauseOn(li.Clause, st, e.lockOld[class], ref, fx)
		tags := li.Clause.Tags
		e.addObl("contract", "unlock:"+li.Name, tags, st, g, pos)
	}
	for _, m := range e.w.spec.Mono[class] {
		g := e.evalClauseOn(m, st, e.lockOld[class], ref, fx)
		e.addObl("contract", "unlock:mono"+m.labelStr(), m.Tags, st, g, pos)
	}
}

// evalClauseOn evaluates an invariant clause with `this` bound to ref (object owning the lock).
func (e *Engine) evalClauseOn(c *Clause, st *State, old *State, ref string, fx *FnExec) string {
	env := &SpecEnv{fx: fx, e: e, st: st, old: old, vars: map[string]*SV{}, pkg: c.Pkg}
	// type of this: from class name; resolved lazily by the pred parameter types. We give it the pointer type when known.
	env.vars["this"] = &SV{V: scalar(ref), T: e.thisType(c)}
	sv := env.eval(c.Expr)
	if sv == nil || len(sv.V.L) != 1 {
		e.specErrors = append(e.specErrors, fmt.Sprintf("%s:%d: invariant did not evaluate", c.File, c.Line))
		return "false"
	}
	return sv.V.L[0]
}

func (e *Engine) thisType(c *Clause) types.Type {
	if c.This == "" {
		return nil
	}
	if tp := e.w.typesPkg(c.Pkg); tp != nil {
		if obj := tp.Scope().Lookup(c.This); obj != nil {
			return types.NewPointer(obj.Type())
		}
	}
	return nil
}

// ---------- protection classes (C10) ----------

func (fx *FnExec) checkAccess(st *State, loc *Loc, write bool, pos token.Pos) {
	e := fx.e
	if loc.Kind != LField || e.suppress > 0 {
		return
	}
	n, ok := loc.S.(*types.Named)
	if !ok || n.Obj().Pkg() == nil {
		return
	}
	first := loc.Path
	if i := strings.Index(first, "."); i >= 0 {
		first = first[:i]
	}
	if first == "" {
		return // whole-struct access
	}
	if write {
		// frame: a function declaring `fresh_writes T` may write fields of T only on objects it owns
		if top := fx.topFx(); top.con != nil {
			for _, fw := range top.con.FreshWrites {
				short := fw
				if i := strings.Index(fw, "."); i >= 0 {
					short = fw[i+1:]
				}
				if short == n.Obj().Name() {
					e.addObl("frame", "fresh:"+n.Obj().Name()+"."+first, []string{"C17"}, st, sel(e.heapGet(st, e.keyMine()), loc.Ref), pos)
				}
			}
		}
	}
	pk := n.Obj().Pkg().Path() + "." + n.Obj().Name() + "." + first
	p := e.w.spec.Protects[pk]
	rw := "r"
	if write {
		rw = "w"
	}
	name := fmt.Sprintf("%s.%s:%s", n.Obj().Name(), first, rw)
	tags := e.autoTags("race", fx.fn)
	if p == nil {
		if e.w.scope[n.Obj().Pkg().Path()] && e.w.spec.RaceStrict[n.Obj().Pkg().Path()+"."+n.Obj().Name()] {
			// a field without a protection declaration (a field added after the contracts were written): its lock is
			// inferred. Candidates are the locks that guard the declared fields of the same struct; the field is
			// accepted if one of them is held (exclusively for writes) at every access, or the object is still private
			mineT := sel(e.heapGet(st, e.keyMine()), loc.Ref)
			cands := map[string]bool{}
			prefix := n.Obj().Pkg().Path() + "." + n.Obj().Name() + "."
			for k, q := range e.w.spec.Protects {
				if strings.HasPrefix(k, prefix) && q.Class == "guarded_by" && q.Lock != "" {
					cands[q.Lock] = true
				}
			}
			if len(cands) == 0 {
				e.addObl("race", "undeclared:"+name, tags, st, mineT, pos)
				return
			}
			var cl []string
			for c := range cands {
				cl = append(cl, c)
			}
			sort.Strings(cl)
			for _, lockClass := range cl {
				goal := "false"
				hs := append(append([]heldLock{}, e.held(st)...), fx.declaredHeld(st)...)
				for _, h := range hs {
					if h.class == lockClass {
						cur := sel(e.heapGet(st, h.key), h.ref)
						if write {
							goal = or(goal, eq(cur, "1"))
						} else {
							goal = or(goal, not(eq(cur, "0")))
						}
					}
				}
				short := lockClass[strings.LastIndex(lockClass, "/")+1:]
				if o := e.addObl("race", "undeclared:"+name+":under:"+short, tags, st, or(goal, mineT), pos); o != nil {
					o.Group = "infer:" + prefix + first
					o.Alt = lockClass
				}
			}
		}
		return
	}
	fresh := false
	if b, ok := e.refBirth[loc.Ref]; ok && b > 0 && !e.escaped["type:"+n.Obj().Pkg().Path()+"."+n.Obj().Name()] {
		fresh = true // object allocated by this activation: not yet shared
	}
	mine := sel(e.heapGet(st, e.keyMine()), loc.Ref) // the same, decided by the solver (aliases through the heap)
	switch p.Class {
	case "guarded_by":
		if fresh {
			return
		}
		// find lock instance: same object if the lock is a field of the same struct, else any held lock of the class
		goal := "false"
		for _, h := range e.held(st) {
			if h.class == p.Lock {
				cur := sel(e.heapGet(st, h.key), h.ref)
				if write {
					goal = or(goal, eq(cur, "1"))
				} else {
					goal = or(goal, not(eq(cur, "0")))
				}
			}
		}
		if goal == "false" {
			// maybe declared held by contract
			for _, hl := range fx.declaredHeld(st) {
				if hl.class == p.Lock {
					cur := sel(e.heapGet(st, hl.key), hl.ref)
					goal = or(goal, not(eq(cur, "0")))
				}
			}
		}
		e.addObl("race", "guard:"+name, tags, st, or(goal, mine), pos)
	case "atomic":
		if fresh {
			return
		}
		e.addObl("race", "atomic:"+name, tags, st, mine, pos)
	case "immutable":
		if write && !fresh {
			isCons := fx.con != nil && fx.con.Constructor
			if !isCons {
				e.addObl("race", "immutable:"+name, tags, st, mine, pos)
			}
		}
	case "init_once":
		if write && !fresh {
			// write only while holding the lock
			goal := "false"
			for _, h := range e.held(st) {
				if h.class == p.Lock {
					goal = or(goal, eq(sel(e.heapGet(st, h.key), h.ref), "1"))
				}
			}
			for _, hl := range fx.declaredHeld(st) {
				if hl.class == p.Lock {
					goal = or(goal, eq(sel(e.heapGet(st, hl.key), hl.ref), "1"))
				}
			}
			e.addObl("race", "initonce:"+name, tags, st, or(goal, mine), pos)
		}
	case "write_once":
		// written once (from nil) under the lock; an unlocked read is fine once the field was seen non-nil
		heldW, heldAny := "false", "false"
		for _, h := range append(e.held(st), fx.declaredHeld(st)...) {
			if h.class == p.Lock {
				cur := sel(e.heapGet(st, h.key), h.ref)
				heldW = or(heldW, eq(cur, "1"))
				heldAny = or(heldAny, not(eq(cur, "0")))
			}
		}
		cur := e.loadLocQuiet(st, loc)
		isNil := eq(cur[0], e.fl.zero(e.c, loc.T)[0])
		if write {
			if !fresh {
				e.addObl("race", "writeonce:"+name, tags, st, and(heldW, isNil), pos)
			}
		} else if !fresh {
			e.addObl("race", "writeonce:"+name, tags, st, or(heldAny, not(isNil)), pos)
		}
	case "free", "confined":
		// no obligation
	}
}

func (fx *FnExec) checkMapAccess(st *State, m ssa.Value, write bool, pos token.Pos) {
	// Map contents are protected through the field that holds the map; a write to the map's contents needs the
	// write lock of the field it was loaded from.
	e := fx.e
	if e.suppress > 0 {
		return
	}
	u, ok := m.(*ssa.UnOp)
	if !ok || u.Op != token.MUL {
		return
	}
	fa, ok := u.X.(*ssa.FieldAddr)
	if !ok {
		return
	}
	pv := st.regs[fa]
	if pv == nil || pv.Loc == nil {
		return
	}
	if write {
		fx.checkAccess(st, pv.Loc, true, pos)
	}
}

func (fx *FnExec) declaredHeld(st *State) []heldLock {
	return fx.topHeld
}

// ---------- type invariants ----------

func (fx *FnExec) typeInvOnLoad(st *State, t types.Type, v *Val) {
	e := fx.e
	pt, ok := t.Underlying().(*types.Pointer)
	if !ok || len(v.L) != 1 {
		return
	}
	n, ok := pt.Elem().(*types.Named)
	if !ok || n.Obj().Pkg() == nil {
		return
	}
	key := n.Obj().Pkg().Path() + "." + n.Obj().Name()
	cls := e.w.spec.TypeInvs[key]
	if len(cls) == 0 || e.inTypeInv > 0 {
		return
	}
	if e.typeInvDone[v.L[0]] {
		return
	}
	if _, fresh := e.refBirth[v.L[0]]; fresh {
		return // object allocated by this activation (possibly still under construction)
	}
	e.typeInvDone[v.L[0]] = true
	e.inTypeInv++
	defer func() { e.inTypeInv-- }()
	for _, c := range cls {
		env := &SpecEnv{fx: fx, e: e, st: st, vars: map[string]*SV{"this": {V: v, T: t}}, pkg: c.Pkg}
		sv := env.eval(c.Expr)
		if sv != nil && len(sv.V.L) == 1 {
			e.assume(st, implies(not(eq(v.L[0], "0")), sv.V.L[0]))
		}
	}
}

// ---------- blocking points ----------

func (fx *FnExec) blockingPoint(st *State, what string, pos token.Pos, chans []string) {
	e := fx.e
	for _, t := range e.tracks {
		t.blocking = true
	}
	tags := e.autoTags("lock", fx.fn)
	hs := append(e.held(st), fx.declaredHeld(st)...)
	if len(hs) == 0 {
		e.addObl("lock", "noblock:"+what, tags, st, "true", pos)
	}
	for _, h := range hs {
		hsn := h.class[strings.LastIndex(h.class, "/")+1:]
		e.addObl("lock", "noblock:"+what+":"+hsn, tags, st, eq(sel(e.heapGet(st, h.key), h.ref), "0"), pos)
	}
	// block.ctx: a blocking point in a function governed by a context must observe that context
	top := fx.topFx()
	if top.con != nil && top.con.InterruptibleBy != "" && chans != nil {
		env := top.specEnv(st, top.old, nil)
		ex, err := parseSpecExpr(top.con.InterruptibleBy)
		if err == nil {
			cv := env.eval(ex)
			if cv != nil && len(cv.V.L) == 1 {
				done := e.c.fun("uf_ctx_done", []Sort{SInt}, SInt)
				want := app(done, cv.V.L[0])
				goal := "false"
				for _, c := range chans {
					goal = or(goal, eq(c, want))
				}
				e.addObl("lock", "block.ctx:"+what, append(tags, top.con.blockCtxTags()...), st, goal, pos)
			}
		}
	} else if top.con != nil && top.con.InterruptibleBy != "" {
		o := e.addObl("lock", "block.ctx:"+what, append(tags, top.con.blockCtxTags()...), st, "false", pos)
		if o != nil {
			o.Static = "blocking point cannot observe the governing context"
		}
	}
}

func (c *FnContract) blockCtxTags() []string {
	var out []string
	for _, cl := range c.Requires {
		_ = cl
	}
	return out
}

func (fx *FnExec) topFx() *FnExec {
	for fx.parent != nil {
		fx = fx.parent
	}
	return fx
}

// ---------- calls ----------

func (fx *FnExec) execGo(st *State, in *ssa.Go) {
	// the spawned function runs concurrently: only its precondition is checked
	c := in.Common()
	var goArgs []*Val
	if _, isClosure := c.Value.(*ssa.MakeClosure); isClosure {
		goArgs = append(goArgs, fx.val(st, c.Value))
	}
	for _, a := range c.Args {
		goArgs = append(goArgs, fx.val(st, a))
	}
	fx.publishClosureArgs(st, goArgs, in.Pos())
	if f := c.StaticCallee(); f != nil {
		if con := fx.e.w.contractFor(f); con != nil {
			var args []*Val
			for _, a := range c.Args {
				args = append(args, fx.val(st, a))
			}
			fx.checkRequires(st, f, con, args, in.Pos())
		}
	}
}

func (fx *FnExec) execDeferred(st *State, d deferred) {
	c := d.instr.Common()
	rv := fx.execCallWith(st, d.instr, c, d.fn, d.args)
	_ = rv
}

func (fx *FnExec) execCall(st *State, in ssa.CallInstruction, c *ssa.CallCommon, isDefer bool) *Val {
	fv := fx.val(st, c.Value)
	var args []*Val
	for _, a := range c.Args {
		args = append(args, fx.val(st, a))
	}
	return fx.execCallWith(st, in, c, fv, args)
}

func resultType(sig *types.Signature) types.Type {
	res := sig.Results()
	switch res.Len() {
	case 0:
		return nil
	case 1:
		return res.At(0).Type()
	}
	return res
}

func (fx *FnExec) execCallWith(st *State, in ssa.CallInstruction, c *ssa.CallCommon, fv *Val, args []*Val) *Val {
	e := fx.e
	pos := in.Pos()
	sig := c.Signature()
	rt := resultType(sig)
	fresh := func(hint string) *Val {
		if rt == nil {
			return nil
		}
		return e.freshVal(st, hint, rt)
	}
	if c.IsInvoke() {
		recv := fv
		what := e.exprText(fx.fn, pos)
		e.addObl("nopanic", "nilcall:"+what, fx.tagsNoPanic(), st, not(eq(recv.L[0], "0")), pos)
		e.assume(st, not(eq(recv.L[0], "0")))
		key := ifaceMethodKey(c.Value.Type(), c.Method.Name())
		if con := e.w.spec.Fns[key]; con != nil {
			return fx.applyContract(st, nil, con, append([]*Val{recv}, args...), sig, rt, pos, key)
		}
		// embedded interface method: try the defining interface
		if alt := ifaceMethodKeyDefining(c.Value.Type(), c.Method); alt != key {
			if con := e.w.spec.Fns[alt]; con != nil {
				return fx.applyContract(st, nil, con, append([]*Val{recv}, args...), sig, rt, pos, alt)
			}
			key = alt
		}
		e.usedDefault[key] = true
		return fresh("r_" + c.Method.Name())
	}
	if b, ok := c.Value.(*ssa.Builtin); ok {
		return fx.execBuiltin(st, in, b, c, args)
	}
	var callee *ssa.Function
	var binds []*Val
	if f := c.StaticCallee(); f != nil {
		callee = f
		if mc, ok := c.Value.(*ssa.MakeClosure); ok {
			binds = fx.val(st, mc).Binds
		}
	} else if fv.Fn != nil {
		callee = fv.Fn
		binds = fv.Binds
	}
	if callee == nil {
		// dynamic call through a function value
		if len(fv.L) == 1 {
			e.addObl("nopanic", "nilcall:"+e.exprText(fx.fn, pos), fx.tagsNoPanic(), st, not(eq(fv.L[0], "0")), pos)
		}
		fx.publishClosureArgs(st, args, pos)
		if fv.Origin != "" {
			if con := e.w.spec.Dyn[fv.Origin]; con != nil {
				// $fn: the function value being called
				fx.dynFn = &SV{V: &Val{L: fv.L[:1]}, T: c.Value.Type()}
				rv := fx.applyContract(st, nil, con, args, sig, rt, pos, fv.Origin)
				fx.dynFn = nil
				return rv
			}
			e.usedDefault["dyn:"+fv.Origin] = true
		} else {
			e.usedDefault["dyn:?"] = true
		}
		return fresh("dyn")
	}
	key := fnKey(callee)
	// built-in models
	if rv, handled := fx.builtinModel(st, in, callee, key, args, rt, pos); handled {
		return rv
	}
	con := e.w.contractFor(callee)
	inScope := callee.Pkg != nil && e.w.inlineOK[callee.Pkg.Pkg.Path()]
	if callee.Parent() != nil {
		p := callee.Parent()
		for p.Parent() != nil {
			p = p.Parent()
		}
		inScope = p.Pkg != nil && e.w.inlineOK[p.Pkg.Pkg.Path()]
	}
	if callee.Pkg == nil && callee.Parent() == nil && len(callee.Blocks) > 0 && callee.Synthetic != "" {
		// synthetic wrapper (promoted method): inline
		inScope = true
	}
	if con != nil && !con.Inline {
		fx.publishClosureArgs(st, args, pos)
		return fx.applyContract(st, callee, con, args, sig, rt, pos, key)
	}
	if inScope && len(callee.Blocks) > 0 {
		if e.depth < e.w.opts.InlineDepth && !e.onStack(callee) {
			fx.checkCallSiteAsserts(st, key, pos, args, sig)
			return fx.inline(st, callee, args, binds, pos)
		}
		o := e.addObl("bind", "needs-contract:"+shortFnKey(key), nil, st, "false", pos)
		if o != nil {
			o.Static = "callee is recursive or too deep to inline and has no contract"
		}
		return fresh("r")
	}
	// external
	fx.publishClosureArgs(st, args, pos)
	e.usedDefault[key] = true
	return fresh("r_" + callee.Name())
}

// publishClosureArgs: a closure handed to a function whose body is not executed here (a contract or an external
// function: a timer, a goroutine starter, a callback registry) may be run by another goroutine from now on. Objects that
// this activation allocated and that the closure captures stop being private at this point: they must satisfy the
// invariants of their locks (unless the lock is held, in which case the next release establishes them), and from here on
// their guarded fields need the lock like those of any shared object.
func (fx *FnExec) publishClosureArgs(st *State, args []*Val, pos token.Pos) {
	e := fx.e
	dbg := os.Getenv("GOCV_DEBUG") != ""
	for _, a := range args {
		if dbg && a != nil {
			fmt.Fprintf(os.Stderr, "publish? fn=%v binds=%d L=%v\n", a.Fn, len(a.Binds), a.L)
		}
		if a == nil || a.Fn == nil || len(a.Binds) == 0 {
			continue
		}
		for i, b := range a.Binds {
			if i >= len(a.Fn.FreeVars) || b == nil {
				continue
			}
			fvT := a.Fn.FreeVars[i].Type()
			pt, ok := fvT.Underlying().(*types.Pointer)
			if !ok {
				continue
			}
			vt, ok := pt.Elem().Underlying().(*types.Pointer)
			if !ok {
				continue
			}
			n, ok := vt.Elem().(*types.Named)
			if !ok || n.Obj().Pkg() == nil {
				continue
			}
			if _, isStruct := n.Underlying().(*types.Struct); !isStruct {
				continue
			}
			loc := fx.ptrLocNoCheck(b, fvT)
			if loc == nil {
				continue
			}
			vals := e.loadLoc(st, loc)
			if len(vals) != 1 {
				continue
			}
			if dbg {
				_, known := e.refBirth[vals[0]]
				fmt.Fprintf(os.Stderr, "  capture %s ref=%s born-here=%v\n", a.Fn.FreeVars[i].Name(), vals[0], known)
			}
			fx.publishRef(st, vals[0], n, a.Fn.FreeVars[i].Name(), pos)
		}
	}
}

func (fx *FnExec) publishRef(st *State, ref string, n *types.Named, what string, pos token.Pos) {
	e := fx.e
	// whether the object is one this activation allocated is decided by the solver (`mine`): the value read from the
	// captured variable is a term, not a syntactic reference
	if e.escaped == nil {
		e.escaped = map[string]bool{}
	}
	first := !e.escaped[ref]
	e.escaped[ref] = true
	e.escaped["type:"+n.Obj().Pkg().Path()+"."+n.Obj().Name()] = true
	mineT := sel(e.heapGet(st, e.keyMine()), ref)
	prefix := n.Obj().Pkg().Path() + "." + n.Obj().Name() + "."
	var classes []string
	for class := range e.w.spec.LockInvs {
		if strings.HasPrefix(class, prefix) {
			classes = append(classes, class)
		}
	}
	sort.Strings(classes)
	if first {
		for _, class := range classes {
			heldT := "false"
			for _, h := range e.held(st) {
				if h.class == class {
					heldT = or(heldT, and(eq(h.ref, ref), not(eq(sel(e.heapGet(st, h.key), h.ref), "0"))))
				}
			}
			for _, li := range e.w.spec.LockInvs[class] {
				old := e.lockOld[class]
				if old == nil {
					old = st
				}
				g := e.evalClauseOn(li.Clause, st, old, ref, fx)
				tags := append([]string{}, li.Clause.Tags...)
				for _, t := range e.autoTags("race", fx.fn) {
					dup := false
					for _, u := range tags {
						dup = dup || u == t
					}
					if !dup {
						tags = append(tags, t)
					}
				}
				e.addObl("contract", "publish:"+what+":"+li.Name, tags, st, or(not(mineT), heldT, g), pos)
			}
		}
	}
	mk := e.keyMine()
	e.heapWrite(st, mk, store(e.heapGet(st, mk), ref, "false"), ref)
}

func ifaceMethodKey(t types.Type, m string) string {
	if n, ok := t.(*types.Named); ok && n.Obj().Pkg() != nil {
		return n.Obj().Pkg().Path() + "." + n.Obj().Name() + "." + m
	}
	return typeKey(t) + "." + m
}

func ifaceMethodKeyDefining(t types.Type, m *types.Func) string {
	if sig, ok := m.Type().(*types.Signature); ok && sig.Recv() != nil {
		if n, ok := sig.Recv().Type().(*types.Named); ok && n.Obj().Pkg() != nil {
			return n.Obj().Pkg().Path() + "." + n.Obj().Name() + "." + m.Name()
		}
	}
	return ifaceMethodKey(t, m.Name())
}

func (e *Engine) onStack(f *ssa.Function) bool {
	for _, g := range e.stack {
		if g == f {
			return true
		}
	}
	return false
}

func (fx *FnExec) inline(st *State, callee *ssa.Function, args []*Val, binds []*Val, pos token.Pos) *Val {
	e := fx.e
	e.depth++
	e.stack = append(e.stack, callee)
	savePrefix := e.curPrefix
	if e.curPrefix == "" {
		e.curPrefix = "via:" + shortFnKey(fnKey(callee))
	} else {
		e.curPrefix += ">" + callee.Name()
	}
	sub := &FnExec{e: e, fn: callee, prefix: fx.prefix + "/" + callee.Name(), parent: fx, con: e.w.contractFor(callee), topHeld: fx.topHeld}
	saveDefers := st.defers
	st.defers = nil
	out, rv := sub.run(st, args, binds)
	e.curPrefix = savePrefix
	e.stack = e.stack[:len(e.stack)-1]
	e.depth--
	// continue in the caller with the callee's exit state
	out.defers = saveDefers
	// registers of the caller survive: copy caller regs not present
	for k, v := range st.regs {
		if _, ok := out.regs[k]; !ok {
			out.regs[k] = v
		}
	}
	*st = *out
	return rv
}

// checkRequires asserts the callee's preconditions at a call site.
func (fx *FnExec) checkRequires(st *State, callee *ssa.Function, con *FnContract, args []*Val, pos token.Pos) *SpecEnv {
	e := fx.e
	env := fx.calleeEnv(st, nil, callee, con, args, nil)
	for _, rq := range con.Requires {
		sv := env.eval(rq.Expr)
		g := "false"
		if sv != nil && len(sv.V.L) == 1 {
			g = sv.V.L[0]
		}
		e.addObl("contract", fmt.Sprintf("call:%s:requires%s", shortFnKey(con.Key), rq.labelStr()), rq.Tags, st, g, pos)
	}
	return env
}

// calleeEnv builds the spec environment of a callee contract at a call site.
func (fx *FnExec) calleeEnv(st *State, old *State, callee *ssa.Function, con *FnContract, args []*Val, rv *Val) *SpecEnv {
	e := fx.e
	env := &SpecEnv{fx: nil, e: e, st: st, old: old, vars: map[string]*SV{}, pkg: con.Pkg}
	var sig *types.Signature
	if callee != nil {
		sig = callee.Signature
		for i, p := range callee.Params {
			if i < len(args) {
				sv := &SV{V: args[i], T: p.Type()}
				env.vars[p.Name()] = sv
				if i == 0 && sig.Recv() != nil {
					env.vars["this"] = sv
				}
			}
		}
		aliasRenamed(env.vars, callee)
	}
	return env
}

func (fx *FnExec) bindResults(env *SpecEnv, names []string, sig *types.Signature, rv *Val) {
	if rv == nil || sig == nil {
		return
	}
	res := sig.Results()
	if res.Len() == 1 {
		sv := &SV{V: rv, T: res.At(0).Type()}
		env.vars["result"] = sv
		env.vars["$ret0"] = sv
		if res.At(0).Name() != "" {
			env.vars[res.At(0).Name()] = sv
		}
		if len(names) > 0 {
			env.vars[names[0]] = sv
		}
		return
	}
	for i := 0; i < res.Len() && i < len(rv.Tup); i++ {
		sv := &SV{V: rv.Tup[i], T: res.At(i).Type()}
		env.vars[fmt.Sprintf("$ret%d", i)] = sv
		if res.At(i).Name() != "" {
			env.vars[res.At(i).Name()] = sv
		}
		if i < len(names) {
			env.vars[names[i]] = sv
		}
	}
}

// applyContract: assert requires, havoc the write set, assume ensures.
func (fx *FnExec) applyContract(st *State, callee *ssa.Function, con *FnContract, args []*Val, sig *types.Signature, rt types.Type, pos token.Pos, key string) *Val {
	res := fx.applyContract0(st, callee, con, args, sig, rt, pos, key)
	fx.recordCallResult(st, key, res, rt)
	return res
}

// recordCallResult stores the value returned by the n-th call of a callee made directly by the function under
// verification in a ghost cell, so that its contract can refer to it as $call("name#n").
func (fx *FnExec) recordCallResult(st *State, key string, res *Val, rt types.Type) {
	e := fx.e
	top := fx.topFx()
	if e.suppress > 0 || res == nil || rt == nil || fx != top || top.callCount == nil {
		return
	}
	if _, isTuple := rt.(*types.Tuple); isTuple {
		return
	}
	short := shortFnKey(key)
	name := short[strings.LastIndex(short, ".")+1:]
	id := fmt.Sprintf("%s#%d", name, top.callCount[name])
	leaves := e.fl.leaves(rt)
	if len(leaves) != len(res.L) {
		return
	}
	if top.callResT == nil {
		top.callResT = map[string]types.Type{}
	}
	top.callResT[id] = rt
	for i, l := range leaves {
		k := fmt.Sprintf("G|$call:%s|%d", id, i)
		e.regHeap(k, l.Sort, "callres_"+id+"_"+leafSuffix(l), "G", l.T)
		e.heapSet(st, k, res.L[i])
	}
}

func (fx *FnExec) applyContract0(st *State, callee *ssa.Function, con *FnContract, args []*Val, sig *types.Signature, rt types.Type, pos token.Pos, key string) *Val {
	e := fx.e
	e.usedContracts[key] = true
	env := &SpecEnv{e: e, st: st, vars: map[string]*SV{}, pkg: con.Pkg}
	dynFn := fx.dynFn
	bindArgs := func(env *SpecEnv) {
		if dynFn != nil {
			env.vars["$fn"] = dynFn
		}
		// parameter names: from the ssa function when available, else from the contract header
		if callee != nil && len(callee.Params) == len(args) {
			for i, p := range callee.Params {
				sv := &SV{V: args[i], T: p.Type()}
				env.vars[p.Name()] = sv
				if i == 0 && callee.Signature.Recv() != nil {
					env.vars["this"] = sv
				}
			}
			aliasRenamed(env.vars, callee)
		}
		// explicit names: receiver (if any) first
		names := con.Params
		off := 0
		if sig.Recv() != nil || len(args) == sig.Params().Len()+1 {
			off = 1
			if len(args) > 0 {
				var rtT types.Type
				if sig.Recv() != nil {
					rtT = sig.Recv().Type()
				}
				env.vars["this"] = &SV{V: args[0], T: rtT}
			}
		}
		for i, n := range names {
			if i+off < len(args) && i < sig.Params().Len() {
				env.vars[n] = &SV{V: args[i+off], T: sig.Params().At(i).Type()}
			}
		}
	}
	bindArgs(env)
	for _, rq := range con.Requires {
		sv := env.eval(rq.Expr)
		g := "false"
		if sv != nil && len(sv.V.L) == 1 {
			g = sv.V.L[0]
		}
		e.addObl("contract", fmt.Sprintf("call:%s:requires%s", shortFnKey(key), rq.labelStr()), fx.clauseTags(rq), st, g, pos)
		e.assume(st, g)
	}
	fx.checkCallSiteAsserts(st, key, pos, args, sig)
	fx.checkHeldAtCall(st, con, env, key, pos)
	// recursion: the callee's variant must be smaller than the caller's
	if top := fx.topFx(); callee != nil && callee == top.fn {
		tags := e.autoTags("term", fx.fn)
		if con.Dec == nil {
			o := e.addObl("term", "recursion:"+shortFnKey(key), tags, st, "false", pos)
			if o != nil {
				o.Static = "recursive call without a decreases clause"
			}
		} else {
			cv := env.eval(con.Dec.Expr)
			tv := top.specEnv(top.old, nil, nil).eval(con.Dec.Expr)
			if cv != nil && tv != nil && len(cv.V.L) == 1 && len(tv.V.L) == 1 {
				e.addObl("term", "recursion:"+shortFnKey(key), tags, st, and("(< "+cv.V.L[0]+" "+tv.V.L[0]+")", "(>= "+tv.V.L[0]+" 0)"), pos)
			}
		}
	}
	// lock discipline at the call: callee acquires these lock classes; they must be free
	ws := e.calleeWriteSet(callee, con)
	if ws != nil {
		tags := e.autoTags("lock", fx.fn)
		for _, h := range append(e.held(st), fx.declaredHeld(st)...) {
			if ws.locks[h.class] && !contains(con.Held, h.class) {
				hs := h.class[strings.LastIndex(h.class, "/")+1:]
				e.addObl("lock", "noreentry:call:"+shortFnKey(key)+":"+hs, tags, st, eq(sel(e.heapGet(st, h.key), h.ref), "0"), pos)
			}
		}
		if ws.blocking {
			fx.blockingPoint(st, "call:"+shortFnKey(key), pos, nil)
		}
		for _, t := range e.tracks {
			for l := range ws.locks {
				t.locks[l] = true
			}
		}
	}
	old := st.clone()
	// `modifies elems <param>`: the contents of a slice argument
	for _, m := range con.Modifies {
		if strings.HasPrefix(m, "elems ") {
			ex, err := parseSpecExpr(strings.TrimSpace(m[6:]))
			if err != nil {
				continue
			}
			if sv := env.eval(ex); sv != nil && len(sv.V.L) == 3 && sv.T != nil {
				if sl, ok := sv.T.Underlying().(*types.Slice); ok {
					for i := range e.fl.leaves(sl.Elem()) {
						e.heapHavocRows(st, e.keyElem(sl.Elem(), i), []string{sv.V.L[0]})
					}
				}
			}
		}
	}
	// `absmodifies $g`: ghost views that the abstraction clauses (absensures) describe; havocked at the call, not
	// subject to the frame check of the body
	for _, g := range con.AbsModifies {
		for _, k := range e.ghostKeys(g) {
			e.heapHavoc(st, k)
		}
	}
	// havoc
	allocBefore := e.heapGet(st, e.keyAlloc())
	if ws != nil {
		for _, k := range ws.sortedKeys() {
			if strings.HasPrefix(k, heldKeyPrefix) || strings.HasPrefix(k, "It|") || strings.HasPrefix(k, "K|") {
				continue
			}
			if k == e.keyAlloc() {
				continue
			}
			if _, ok := e.heapInfo[k]; !ok {
				continue
			}
			if ws.keys[k] {
				e.heapHavocFresh(st, k, allocBefore)
			} else {
				e.heapHavoc(st, k)
			}
		}
		na := e.c.fresh("alloc", SInt)
		st.heap[e.keyAlloc()] = na
		e.assume(st, "(>= "+na+" "+allocBefore+")")
		e.assumeTrackedWF(st)
	}
	var rv *Val
	if rt != nil {
		rv = e.freshVal(st, "r_"+lastName(key), rt)
	}
	env2 := &SpecEnv{e: e, st: st, old: old, vars: map[string]*SV{}, pkg: con.Pkg}
	bindArgs(env2)
	fx.bindResults(env2, con.Results, sig, rv)
	for _, en := range append(append([]*Clause{}, con.Ensures...), con.AbsEnsure...) {
		if strings.Contains(en.Src, "$call(") {
			// refers to values internal to the callee's body: nothing the caller can use (assume less)
			continue
		}
		nerr := len(e.specErrors)
		sv := env2.eval(en.Expr)
		if len(e.specErrors) > nerr && con.Pkg == "extern" {
			// an assumed clause about packages this module does not import: not applicable here (assume less)
			e.specErrors = e.specErrors[:nerr]
			continue
		}
		if len(e.specErrors) > nerr && callee != nil && strings.Contains(e.specErrors[len(e.specErrors)-1], "unknown identifier") {
			// a postcondition about the callee's own locals: it is checked in the callee; nothing a caller can use
			e.specErrors = e.specErrors[:nerr]
			continue
		}
		if sv != nil && len(sv.V.L) == 1 {
			e.assume(st, sv.V.L[0])
		}
	}
	return rv
}

func contains(xs []string, x string) bool {
	for _, y := range xs {
		if y == x || strings.HasSuffix(x, "."+y) {
			return true
		}
	}
	return false
}

func lastName(k string) string {
	if i := strings.LastIndex(k, "."); i >= 0 {
		return k[i+1:]
	}
	return k
}

// calleeWriteSet discovers (and caches per engine) what a contracted callee may write.
func (e *Engine) calleeWriteSet(callee *ssa.Function, con *FnContract) *WriteSet {
	key := con.Key
	if ws, ok := e.wsCache[key]; ok {
		return ws
	}
	ws := newWS()
	e.wsCache[key] = ws // recursion guard: empty while computing
	if con.ModDeclared || callee == nil || len(callee.Blocks) == 0 {
		for _, m := range con.Modifies {
			if strings.HasPrefix(m, "elems ") {
				continue
			}
			if strings.HasPrefix(m, "fresh ") {
				for _, k := range e.freshTypeKeys(strings.TrimSpace(m[6:]), con.Pkg) {
					if _, ok := ws.keys[k]; !ok {
						ws.keys[k] = true
					}
				}
				ws.keys[e.keyMine()] = true
				continue
			}
			for _, k := range e.modifiesKeys(m, con.Pkg) {
				ws.keys[k] = false
			}
		}
		ws.blocking = con.Blocking
		return ws
	}
	// discovery run on a generic state (isolated from the caller's trackers: the callee's locals are its own)
	outer := e.tracks
	e.tracks = nil
	tr := e.pushTrack()
	e.suppress++
	e.depth++
	e.stack = append(e.stack, callee)
	saveHeld := e.lockOld
	e.lockOld = map[string]*State{}
	st := &State{pc: "true", locals: map[*ssa.Alloc][]string{}, regs: map[ssa.Value]*Val{}, heap: map[string]string{}}
	sub := &FnExec{e: e, fn: callee, prefix: "ws/" + callee.Name(), con: con}
	args, binds := sub.genericArgs(st)
	sub.assumeHeld(st)
	sub.run(st, args, binds)
	e.lockOld = saveHeld
	e.stack = e.stack[:len(e.stack)-1]
	e.depth--
	e.suppress--
	e.popTrack()
	e.tracks = outer
	for k, f := range tr.keys {
		ws.keys[k] = f
	}
	for l := range tr.locks {
		ws.locks[l] = true
	}
	ws.blocking = tr.blocking || con.Blocking
	return ws
}

// modifiesKeys maps a declared modifies item to heap keys: "$ghost", "T.field", "chanclosed".
func (e *Engine) modifiesKeys(m string, pkg string) []string {
	if strings.HasPrefix(m, "$") {
		return e.ghostKeys(m)
	}
	if m == "chanclosed" {
		return []string{e.keyChanClosed()}
	}
	if i := strings.Index(m, "."); i >= 0 {
		tn, fn := m[:i], m[i+1:]
		if tp := e.w.typesPkg(pkg); tp != nil {
			if obj := tp.Scope().Lookup(tn); obj != nil {
				lo, hi, ft, _, ok := e.lookupField(obj.Type(), fn)
				if ok {
					var out []string
					for j := lo; j < hi; j++ {
						out = append(out, e.keyField(obj.Type(), j))
					}
					switch u := ft.Underlying().(type) {
					case *types.Map:
						out = append(out, e.keyMapDom(u), e.keyMapLen(u))
						_, vl := e.mapSorts(u)
						for j := range vl {
							out = append(out, e.keyMapVal(u, j))
						}
					case *types.Slice:
						for j := range e.fl.leaves(u.Elem()) {
							out = append(out, e.keyElem(u.Elem(), j))
						}
					}
					return out
				}
			}
		}
	}
	// alias.T (every field of T) or alias.T.f, with alias an import of the contract's package
	if parts := strings.Split(m, "."); len(parts) >= 2 {
		if imp := e.w.spec.Imports[pkg]; imp != nil {
			if path, ok := imp[parts[0]]; ok {
				if tp := e.w.typesPkg(path); tp != nil {
					if obj := tp.Scope().Lookup(parts[1]); obj != nil {
						if len(parts) == 3 {
							if lo, hi, _, _, ok := e.lookupField(obj.Type(), parts[2]); ok {
								var out []string
								for j := lo; j < hi; j++ {
									out = append(out, e.keyField(obj.Type(), j))
								}
								return out
							}
						} else if len(parts) == 2 {
							var out []string
							for j := range e.fl.leaves(obj.Type()) {
								out = append(out, e.keyField(obj.Type(), j))
							}
							if len(out) > 0 {
								return out
							}
						}
					}
				}
			}
		}
	}
	e.specErrors = append(e.specErrors, "modifies: cannot resolve "+m)
	return nil
}

// genericArgs creates symbolic arguments for verifying fn standalone.
func (fx *FnExec) genericArgs(st *State) (args []*Val, binds []*Val) {
	e := fx.e
	for _, p := range fx.fn.Params {
		v := e.freshVal(st, "p_"+p.Name(), p.Type())
		args = append(args, v)
	}
	for _, fv := range fx.fn.FreeVars {
		// captured variable cells: distinct non-nil references
		ref := e.c.fresh("cell_"+fv.Name(), SInt)
		e.assume(st, and("(> "+ref+" 0)", "(<= "+ref+" "+e.heapGet(st, e.keyAlloc())+")"))
		for _, b := range binds {
			e.assume(st, not(eq(b.L[0], ref)))
		}
		et := fv.Type().(*types.Pointer).Elem()
		n := len(e.fl.leaves(et))
		var loc *Loc
		if _, isStruct := et.Underlying().(*types.Struct); isStruct && !(n == 1 && e.fl.leaves(et)[0].Path == "") {
			loc = nil
		} else {
			loc = &Loc{Kind: LCell, Ref: ref, S: et, Root: et, T: et, Lo: 0, Hi: n}
		}
		binds = append(binds, &Val{L: []string{ref}, Loc: loc})
	}
	return
}

// assumeHeld sets up locks declared `locks held` as W-held at entry.
func (fx *FnExec) assumeHeld(st *State) {
	e := fx.e
	if fx.con == nil {
		return
	}
	for _, h := range fx.con.Held {
		if h == "class" {
			continue
		}
		if key, class, ok := e.lockClassKey(h, fx.con.Pkg); ok {
			ref := e.c.fresh("lockowner", SInt)
			e.assume(st, "(> "+ref+" 0)")
			st.heap[key] = e.c.define("K", arrSort(SInt, SInt), store(e.heapGet(st, key), ref, "1"))
			fx.topHeld = append(fx.topHeld, heldLock{key: key, ref: ref, class: class})
			continue
		}
		ex, err := parseSpecExpr(h)
		if err != nil {
			e.specErrors = append(e.specErrors, "locks held: "+err.Error())
			continue
		}
		fx.args = nil
		env := fx.specEnvArgs(st)
		sv := env.eval(ex)
		if sv == nil || sv.V.Loc == nil {
			e.specErrors = append(e.specErrors, fmt.Sprintf("locks held %s: not a lock field (%s)", h, fx.fn.Name()))
			continue
		}
		loc := sv.V.Loc
		key := e.keyLock(loc.S, loc.Path)
		st.heap[key] = e.c.define("K", arrSort(SInt, SInt), store(e.heapGet(st, key), loc.Ref, "1"))
		fx.topHeld = append(fx.topHeld, heldLock{key: key, ref: loc.Ref, class: lockClassOf(loc)})
	}
}

// lockClassKey resolves "T.field" (a lock class name, not an expression) to its heap key.
func (e *Engine) lockClassKey(name string, pkg string) (key string, class string, ok bool) {
	i := strings.Index(name, ".")
	if i < 0 {
		return
	}
	tp := e.w.typesPkg(pkg)
	if tp == nil {
		return
	}
	obj := tp.Scope().Lookup(name[:i])
	if obj == nil {
		return
	}
	if _, isType := obj.(*types.TypeName); !isType {
		return
	}
	return e.keyLock(obj.Type(), name[i+1:]), pkg + "." + name, true
}

// checkHeldAtCall asserts that the caller holds (W) the locks the callee declares `locks held`.
func (fx *FnExec) checkHeldAtCall(st *State, con *FnContract, env *SpecEnv, key string, pos token.Pos) {
	e := fx.e
	tags := e.autoTags("lock", fx.fn)
	for _, h := range con.Held {
		if h == "class" {
			continue
		}
		goal := "false"
		if _, class, ok := e.lockClassKey(h, con.Pkg); ok {
			for _, hl := range append(e.held(st), fx.topHeld...) {
				if hl.class == class {
					goal = or(goal, eq(sel(e.heapGet(st, hl.key), hl.ref), "1"))
				}
			}
		} else if ex, err := parseSpecExpr(h); err == nil {
			if sv := env.eval(ex); sv != nil && sv.V.Loc != nil {
				loc := sv.V.Loc
				goal = eq(sel(e.heapGet(st, e.keyLock(loc.S, loc.Path)), loc.Ref), "1")
			}
		}
		e.addObl("lock", "held:call:"+shortFnKey(key)+":"+h, tags, st, goal, pos)
	}
}

func (fx *FnExec) specEnvArgs(st *State) *SpecEnv {
	env := &SpecEnv{fx: fx, e: fx.e, st: st, vars: map[string]*SV{}}
	if fx.fn.Pkg != nil {
		env.pkg = fx.fn.Pkg.Pkg.Path()
	}
	if fx.con != nil {
		env.pkg = fx.con.Pkg
	}
	for i, p := range fx.fn.Params {
		if v, ok := st.regs[p]; ok {
			sv := &SV{V: v, T: p.Type()}
			env.vars[p.Name()] = sv
			if i == 0 && fx.fn.Signature.Recv() != nil {
				env.vars["this"] = sv
			}
		}
	}
	aliasRenamed(env.vars, fx.fn)
	return env
}

func (fx *FnExec) closureSite(st *State, in *ssa.MakeClosure, v *Val) {
	e := fx.e
	fn := in.Fn.(*ssa.Function)
	con := e.w.contractFor(fn)
	if con == nil {
		return
	}
	// captures clauses of the closure's contract are asserted where the closure is created
	sub := &FnExec{e: e, fn: fn, con: con, parent: fx}
	tmp := st.clone()
	for i, fv := range fn.FreeVars {
		if i < len(v.Binds) {
			tmp.regs[fv] = v.Binds[i]
		}
	}
	for _, c := range con.Captures {
		env := &SpecEnv{fx: sub, e: e, st: tmp, vars: map[string]*SV{}, pkg: con.Pkg}
		sv := env.eval(c.Expr)
		g := "false"
		if sv != nil && len(sv.V.L) == 1 {
			g = sv.V.L[0]
		}
		st.pc = tmp.pc
		e.addObl("contract", "closure:"+fn.Name()+":captures"+c.labelStr(), c.Tags, st, g, in.Pos())
	}
}

// ---------- builtins ----------

func (fx *FnExec) execBuiltin(st *State, in ssa.CallInstruction, b *ssa.Builtin, c *ssa.CallCommon, args []*Val) *Val {
	e := fx.e
	pos := in.Pos()
	switch b.Name() {
	case "len":
		t := c.Args[0].Type().Underlying()
		switch u := t.(type) {
		case *types.Slice:
			return scalar(args[0].L[2])
		case *types.Map:
			fx.checkMapAccess(st, c.Args[0], false, pos)
			return scalar(e.mapLenFacts(st, u, args[0].L[0]))
		case *types.Basic:
			ln := fx.strLen(args[0].L[0])
			e.assume(st, "(>= "+ln+" 0)")
			return scalar(ln)
		case *types.Pointer:
			if at, ok := u.Elem().Underlying().(*types.Array); ok {
				return scalar(fmt.Sprint(at.Len()))
			}
		case *types.Chan:
			v := e.freshVal(st, "chanlen", types.Typ[types.Int])
			e.assume(st, "(>= "+v.L[0]+" 0)")
			return v
		}
		e.outsideSubset("len of " + t.String())
		return e.freshVal(st, "len", types.Typ[types.Int])
	case "cap":
		if _, ok := c.Args[0].Type().Underlying().(*types.Slice); ok {
			capT := app(e.c.fun("slicecap", []Sort{SInt, SInt, SInt}, SInt), args[0].L...)
			e.assume(st, "(>= "+capT+" "+args[0].L[2]+")")
			return scalar(capT)
		}
		return e.freshVal(st, "cap", types.Typ[types.Int])
	case "append":
		st0 := c.Args[0].Type().Underlying().(*types.Slice)
		et := st0.Elem()
		a, b2 := args[0], args[1]
		if _, isStr := c.Args[1].Type().Underlying().(*types.Basic); isStr {
			e.outsideSubset("append(bytes, string...)")
			return e.freshVal(st, "app", c.Args[0].Type())
		}
		arr := e.newRef(st, "arr")
		// ownership of the result: append may write in place when the source has spare capacity, so the result is
		// private to this activation only if the source's backing array is (or the source is nil); the contents are
		// modelled as a new array either way (in-place writes are not modelled as writes to the source: stated)
		{
			mk := e.keyMine()
			m := e.heapGet(st, mk)
			e.heapWrite(st, mk, store(m, arr, or(sel(m, a.L[0]), eq(a.L[0], "0"))), arr)
		}
		n1, n2 := a.L[2], b2.L[2]
		nl := e.c.define("applen", SInt, "(+ "+n1+" "+n2+")")
		for i, l := range e.fl.leaves(et) {
			k := e.keyElem(et, i)
			h := e.heapGet(st, k)
			ha := e.heapGet(st, e.keyElemOf(et, i, a.L[0]))
			hb := e.heapGet(st, e.keyElemOf(et, i, b2.L[0]))
			na := e.c.fresh("appc", arrSort(SInt, l.Sort))
			// pointwise definition over absolute positions
			srcA := fmt.Sprintf("(select (select %s %s) (+ %s j!q))", ha, a.L[0], a.L[1])
			extraPat := ""
			if a.L[1] == "0" {
				// no arithmetic in the source position: also trigger on the source element (old elements keep their index)
				srcA = fmt.Sprintf("(select (select %s %s) j!q)", ha, a.L[0])
				extraPat = " :pattern (" + srcA + ")"
			}
			e.assume(st, fmt.Sprintf("(forall ((j!q Int)) (! (and (=> (and (<= 0 j!q) (< j!q %s)) (= (select %s j!q) %s)) (=> (and (<= %s j!q) (< j!q %s)) (= (select %s j!q) (select (select %s %s) (+ %s (- j!q %s)))))) :pattern ((select %s j!q))%s))",
				n1, na, srcA, n1, nl, na, hb, b2.L[0], b2.L[1], n1, na, extraPat))
			if a.L[1] != "0" {
				// symbolic offset: the same fact indexed by the absolute source position, so that a known source
				// element (e.g. the witness of an invariant's exists) finds its new index
				srcP := fmt.Sprintf("(select (select %s %s) p!q)", ha, a.L[0])
				e.assume(st, fmt.Sprintf("(forall ((p!q Int)) (! (=> (and (<= %s p!q) (< p!q (+ %s %s))) (= (select %s (- p!q %s)) %s)) :pattern (%s)))",
					a.L[1], a.L[1], n1, na, a.L[1], srcP, srcP))
			}
			// the appended elements, by position (common case: one element)
			if isNumLit(n2) {
				var cnt int
				fmt.Sscan(n2, &cnt)
				for q := 0; q < cnt && q < 4; q++ {
					e.assume(st, fmt.Sprintf("(= (select %s (+ %s %d)) (select (select %s %s) (+ %s %d)))", na, n1, q, hb, b2.L[0], b2.L[1], q))
				}
			}
			e.heapWrite(st, k, store(h, arr, na), arr)
		}
		if _, ok := e.c.decls["seqofI"]; ok && isInteger(et) {
			ha := e.heapGet(st, e.keyElemOf(et, 0, a.L[0]))
			hb := e.heapGet(st, e.keyElemOf(et, 0, b2.L[0]))
			hn := e.heapGet(st, e.keyElem(et, 0))
			e.assume(st, fmt.Sprintf("(= (seqofI (select %s %s) 0 %s) (seqI_cat (seqofI (select %s %s) %s %s) (seqofI (select %s %s) %s %s)))", hn, arr, nl, ha, a.L[0], a.L[1], n1, hb, b2.L[0], b2.L[1], n2))
		}
		if _, ok := e.c.decls["seqof"]; ok && isString(et) {
			// abstract-sequence view: append concatenates
			ha := e.heapGet(st, e.keyElemOf(et, 0, a.L[0]))
			hb := e.heapGet(st, e.keyElemOf(et, 0, b2.L[0]))
			hn := e.heapGet(st, e.keyElem(et, 0))
			e.assume(st, fmt.Sprintf("(= (seqof (select %s %s) 0 %s) (seq_cat (seqof (select %s %s) %s %s) (seqof (select %s %s) %s %s)))", hn, arr, nl, ha, a.L[0], a.L[1], n1, hb, b2.L[0], b2.L[1], n2))
		}
		return &Val{L: []string{arr, "0", nl}}
	case "delete":
		m := c.Args[0].Type().Underlying().(*types.Map)
		fx.checkMapAccess(st, c.Args[0], true, pos)
		e.mapDelete(st, m, args[0].L[0], args[1].L[0])
		return nil
	case "close":
		ch := args[0].L[0]
		k := e.keyChanClosed()
		what := e.exprText(fx.fn, pos)
		e.addObl("nopanic", "close-nil:"+what, fx.tagsNoPanic(), st, not(eq(ch, "0")), pos)
		e.addObl("nopanic", "close-closed:"+what, fx.tagsNoPanic(), st, not(sel(e.heapGet(st, k), ch)), pos)
		e.heapWrite(st, k, store(e.heapGet(st, k), ch, "true"), ch)
		return nil
	case "copy":
		e.outsideSubset("copy builtin")
		return e.freshVal(st, "copy", types.Typ[types.Int])
	case "panic":
		e.addObl("nopanic", "panic:"+e.exprText(fx.fn, pos), fx.tagsNoPanic(), st, "false", pos)
		st.pc = "false"
		return nil
	case "print", "println":
		return nil
	case "recover":
		return scalar("0")
	case "ssa:wrapnilchk":
		e.addObl("nopanic", "nil:"+e.exprText(fx.fn, pos), fx.tagsNoPanic(), st, not(eq(args[0].L[0], "0")), pos)
		e.assume(st, not(eq(args[0].L[0], "0")))
		return args[0]
	case "ssa:deferstack":
		return scalar("0")
	case "min", "max":
		op := "<="
		if b.Name() == "max" {
			op = ">="
		}
		r := args[0].L[0]
		for _, a := range args[1:] {
			r = ite("("+op+" "+r+" "+a.L[0]+")", r, a.L[0])
		}
		return scalar(r)
	}
	e.outsideSubset("builtin " + b.Name())
	if rt := resultType(c.Signature()); rt != nil {
		return e.freshVal(st, "bi", rt)
	}
	return nil
}

// builtinModel implements sync and sync/atomic and a few pure library functions.
func (fx *FnExec) builtinModel(st *State, in ssa.CallInstruction, callee *ssa.Function, key string, args []*Val, rt types.Type, pos token.Pos) (*Val, bool) {
	e := fx.e
	switch key {
	case "sync.(*Mutex).Lock", "sync.(*RWMutex).Lock":
		fx.lockOp(st, args[0], "Lock", pos)
		return nil, true
	case "sync.(*Mutex).Unlock", "sync.(*RWMutex).Unlock":
		fx.lockOp(st, args[0], "Unlock", pos)
		return nil, true
	case "sync.(*RWMutex).RLock":
		fx.lockOp(st, args[0], "RLock", pos)
		return nil, true
	case "sync.(*RWMutex).RUnlock":
		fx.lockOp(st, args[0], "RUnlock", pos)
		return nil, true
	case "regexp.Compile", "regexp.MustCompile":
		lit, ok := smtStringLiteral(args[0].L[0])
		if !ok || !e.c.strTheory {
			return nil, false
		}
		if _, err := goRegexToRegLan(lit); err != nil {
			e.outsideSubset("regular expression outside the translated subset: " + err.Error())
			return nil, false
		}
		re := e.newRef(st, "regexp")
		e.rePat[re] = lit
		e.noteFeature("regexp.Compile/MatchString modelled by mechanical translation of the constant pattern to an SMT regular language")
		if key == "regexp.MustCompile" {
			return scalar(re), true
		}
		return &Val{Tup: []*Val{scalar(re), scalar("0")}}, true
	case "regexp.(*Regexp).MatchString":
		pat, ok := e.rePat[args[0].L[0]]
		if !ok {
			return nil, false
		}
		rl, err := goRegexToRegLan(pat)
		if err != nil {
			return nil, false
		}
		return scalar(e.c.define("match", SBool, "(str.in_re "+args[1].L[0]+" "+rl+")")), true
	case "fmt.Sprintf":
		if !e.c.strTheory || len(args) != 2 || len(args[1].L) != 3 {
			return nil, false
		}
		format, ok := smtStringLiteral(args[0].L[0])
		if !ok || !isNumLit(args[1].L[2]) {
			return nil, false
		}
		var n int
		fmt.Sscan(args[1].L[2], &n)
		pieces := strings.Split(format, "%s")
		if len(pieces) != n+1 || strings.Contains(strings.Join(pieces, ""), "%") {
			return nil, false
		}
		var it types.Type = types.NewInterfaceType(nil, nil)
		if ps := callee.Signature.Params(); ps.Len() > 0 {
			if sl, ok := ps.At(ps.Len() - 1).Type().Underlying().(*types.Slice); ok {
				it = sl.Elem()
			}
		}
		tof := e.c.fun("typeof", []Sort{SInt}, SInt)
		ub := e.c.fun("unbox_string_0", []Sort{SInt}, "String")
		var parts []string
		var conds []string
		for i := 0; i < n; i++ {
			if pieces[i] != "" {
				parts = append(parts, e.c.strLit(pieces[i]))
			}
			idx := fmt.Sprintf("(+ %s %d)", args[1].L[1], i)
			if args[1].L[1] == "0" {
				idx = fmt.Sprint(i)
			}
			el := sel(sel(e.heapGet(st, e.keyElemOf(it, 0, args[1].L[0])), args[1].L[0]), idx)
			conds = append(conds, eq(app(tof, el), fx.typeTag(types.Typ[types.String])))
			parts = append(parts, app(ub, el))
		}
		if pieces[n] != "" {
			parts = append(parts, e.c.strLit(pieces[n]))
		}
		r := e.c.fresh("sprintf", "String")
		cat := parts[0]
		if len(parts) > 1 {
			cat = "(str.++ " + strings.Join(parts, " ") + ")"
		}
		e.assume(st, implies(and(conds...), eq(r, cat)))
		e.noteFeature("fmt.Sprintf with a constant %s-only format modelled as string concatenation")
		return scalar(r), true
	case "sync.NewCond":
		v := e.freshVal(st, "cond", rt)
		e.assume(st, not(eq(v.L[0], "0")))
		return v, true
	case "sync.(*Cond).Broadcast", "sync.(*Cond).Signal":
		if class := e.w.spec.Conds[args[0].Origin]; class != "" {
			st.heap[e.keyCondFlag(class)] = "false"
		}
		return nil, true
	case "sync.(*Cond).Wait":
		class := e.w.spec.Conds[args[0].Origin]
		tags := e.autoTags("lock", fx.fn)
		var own *heldLock
		for _, h := range e.held(st) {
			if h.class == class {
				hh := h
				own = &hh
			}
		}
		if class == "" || own == nil {
			o := e.addObl("lock", "cond.wait:lock", tags, st, "false", pos)
			if o != nil {
				o.Static = "cond.Wait on a condition variable whose lock is not declared (cond ... uses ...) or not held"
			}
			return nil, true
		}
		// Wait = release L, block, re-acquire L
		cur := sel(e.heapGet(st, own.key), own.ref)
		e.addObl("lock", "owned:cond.wait", tags, st, eq(cur, "1"), pos)
		fx.release(st, class, own.ref, pos)
		e.heapWrite(st, own.key, store(e.heapGet(st, own.key), own.ref, "0"), own.ref)
		fx.blockingPoint(st, "cond.Wait", pos, []string{})
		e.acquire(st, class, own.ref, fx)
		e.heapWrite(st, own.key, store(e.heapGet(st, own.key), own.ref, "1"), own.ref)
		return nil, true
	case "sync/atomic.AddInt32", "sync/atomic.AddUint32", "sync/atomic.AddInt64", "sync/atomic.AddUint64":
		loc := args[0].Loc
		if loc == nil {
			e.outsideSubset("atomic op on unknown location")
			return e.freshVal(st, "atomic", rt), true
		}
		fx.atomicAccess(st, loc, pos)
		cur := e.loadLoc(st, loc)
		nv := e.c.define("atomic", SInt, wrapLinear("(+ "+cur[0]+" "+args[1].L[0]+")", rt))
		e.storeLoc(st, loc, []string{nv})
		fx.noteDelta(st, loc, args[1].L[0])
		return scalar(nv), true
	case "sync/atomic.LoadInt32", "sync/atomic.LoadUint32", "sync/atomic.LoadInt64", "sync/atomic.LoadUint64":
		loc := args[0].Loc
		if loc == nil {
			return e.freshVal(st, "atomic", rt), true
		}
		fx.atomicAccess(st, loc, pos)
		return &Val{L: e.loadLoc(st, loc)}, true
	case "sync/atomic.StoreInt32", "sync/atomic.StoreUint32", "sync/atomic.StoreInt64", "sync/atomic.StoreUint64":
		loc := args[0].Loc
		if loc == nil {
			e.outsideSubset("atomic op on unknown location")
			return nil, true
		}
		fx.atomicAccess(st, loc, pos)
		e.storeLoc(st, loc, args[1].L)
		return nil, true
	}
	return nil, false
}

// atomicAccess checks the protection class of a location touched by sync/atomic.
func (fx *FnExec) atomicAccess(st *State, loc *Loc, pos token.Pos) {
	e := fx.e
	if loc.Kind != LField || e.suppress > 0 {
		return
	}
	n, ok := loc.S.(*types.Named)
	if !ok || n.Obj().Pkg() == nil {
		return
	}
	pk := n.Obj().Pkg().Path() + "." + n.Obj().Name() + "." + loc.Path
	p := e.w.spec.Protects[pk]
	if p == nil {
		return
	}
	if p.Class != "atomic" {
		// mixing atomic and non-atomic protection is fine if the declared guard holds; check as a write
		fx.checkAccess(st, loc, true, pos)
	}
}

func (fx *FnExec) noteDelta(st *State, loc *Loc, d string) {}

// assumeTrackedWF: well-formedness of the allocation sets of tracked types: allocated objects have references in (0, alloc].
func (e *Engine) assumeTrackedWF(st *State) {
	var names []string
	for k := range e.w.spec.Tracked {
		names = append(names, k)
	}
	sort.Strings(names)
	for _, full := range names {
		i := strings.LastIndex(full, ".")
		tp := e.w.typesPkg(full[:i])
		if tp == nil {
			continue
		}
		obj := tp.Scope().Lookup(full[i+1:])
		if obj == nil {
			continue
		}
		k := e.keyIsA(obj.Type())
		if k == "" {
			continue
		}
		a := e.heapGet(st, k)
		e.assume(st, fmt.Sprintf("(forall ((r!q Int)) (! (=> (select %s r!q) (and (< 0 r!q) (<= r!q %s))) :pattern ((select %s r!q))))", a, e.heapGet(st, e.keyAlloc()), a))
	}
}

// checkCallSiteAsserts: `callsite <callee>#n asserts e` clauses of the enclosing top-level function: e is proved in the
// caller's state immediately before the n-th call of callee (in program order of first execution).
func (fx *FnExec) checkCallSiteAsserts(st *State, key string, pos token.Pos, args []*Val, sig *types.Signature) {
	e := fx.e
	top := fx.topFx()
	if e.suppress > 0 {
		return
	}
	short := shortFnKey(key)
	name := short[strings.LastIndex(short, ".")+1:]
	if top.callCount == nil {
		top.callCount = map[string]int{}
		top.callDyn = map[string]int{}
		// call sites of the function itself are numbered per callee name in source order
		top.callOrd = map[string]map[token.Pos]int{}
		byName := map[string][]token.Pos{}
		for _, b := range top.fn.Blocks {
			for _, in := range b.Instrs {
				ci, ok := in.(ssa.CallInstruction)
				if !ok {
					continue
				}
				cn := ""
				if ci.Common().IsInvoke() {
					cn = ci.Common().Method.Name()
				} else if sc := ci.Common().StaticCallee(); sc != nil {
					cn = sc.Name()
				}
				if cn != "" && in.Pos().IsValid() {
					byName[cn] = append(byName[cn], in.Pos())
				}
			}
		}
		for cn, ps := range byName {
			sort.Slice(ps, func(i, j int) bool { return ps[i] < ps[j] })
			top.callOrd[cn] = map[token.Pos]int{}
			for i, p := range ps {
				if _, dup := top.callOrd[cn][p]; !dup {
					top.callOrd[cn][p] = i + 1
				}
			}
			top.callDyn[cn] = len(ps)
		}
	}
	n := 0
	if fx == top {
		n = top.callOrd[name][pos]
	}
	if n == 0 {
		// a call made by an inlined callee: numbered after the function's own sites, in execution order
		top.callDyn[name]++
		n = top.callDyn[name]
	}
	top.callCount[name] = n
	// ghost updates declared on an inlined function apply wherever it is inlined (every call of that name in it)
	if fx != top && fx.con != nil {
		for _, cs := range fx.con.CallSites {
			if cs.Set == "" || cs.Callee != name {
				continue
			}
			env := fx.specEnv(st, top.oldFor(st), nil)
			if sv := env.eval(cs.C.Expr); sv != nil {
				keys := e.ghostKeys(cs.Set)
				if len(keys) == len(sv.V.L) && len(keys) > 0 {
					for i, k := range keys {
						e.heapSet(st, k, sv.V.L[i])
					}
				} else {
					e.specErrors = append(e.specErrors, "callsite sets: unknown ghost or shape mismatch: "+cs.Set)
				}
			}
			cs.seen = true
		}
	}
	if top.con == nil || len(top.con.CallSites) == 0 {
		return
	}
	for _, cs := range top.con.CallSites {
		if cs.Callee != name || cs.N != n {
			continue
		}
		env := top.specEnv(st, top.oldFor(st), nil)
		// $arg0, $arg1, ...: the actual arguments of this call (receiver first)
		if sig != nil {
			off := 0
			if sig.Recv() != nil && len(args) == sig.Params().Len()+1 {
				env.vars["$arg0"] = &SV{V: args[0], T: sig.Recv().Type()}
				off = 1
			}
			for i := 0; i < sig.Params().Len() && i+off < len(args); i++ {
				env.vars[fmt.Sprintf("$arg%d", i+off)] = &SV{V: args[i+off], T: sig.Params().At(i).Type()}
			}
		}
		if cs.Set != "" {
			// ghost update at this call
			if sv := env.eval(cs.C.Expr); sv != nil {
				keys := e.ghostKeys(cs.Set)
				if len(keys) == len(sv.V.L) && len(keys) > 0 {
					for i, k := range keys {
						e.heapSet(st, k, sv.V.L[i])
					}
				} else {
					e.specErrors = append(e.specErrors, "callsite sets: unknown ghost or shape mismatch: "+cs.Set)
				}
			}
			cs.seen = true
			continue
		}
		for i, nt := range env.evalSplit(cs.C.Expr) {
			e.addObl("contract", fmt.Sprintf("callsite:%s#%d%s%s", name, n, cs.C.labelStr(), partName(nt, i)), top.clauseTags(cs.C), st, nt.term, pos)
		}
		cs.seen = true
	}
}

// freshTypeKeys: the heap keys a callee that only allocates and initialises objects of type T may write
// (fields of T; element arrays of slices of *T and of the slice-typed fields of T).
func (e *Engine) freshTypeKeys(tname string, pkg string) []string {
	te := &STypeExpr{Kind: "named", Name: tname}
	if i := strings.Index(tname, "."); i >= 0 {
		te = &STypeExpr{Kind: "named", Pkg: tname[:i], Name: tname[i+1:]}
	}
	t := e.resolveType(te, pkg)
	if t == nil {
		e.specErrors = append(e.specErrors, "modifies fresh: cannot resolve "+tname)
		return nil
	}
	var out []string
	for i := range e.fl.leaves(t) {
		out = append(out, e.keyField(t, i))
	}
	if k := e.keyIsA(t); k != "" {
		out = append(out, k)
	}
	pt := types.NewPointer(t)
	for i := range e.fl.leaves(pt) {
		out = append(out, e.keyElem(pt, i))
	}
	if su, ok := t.Underlying().(*types.Struct); ok {
		for i := 0; i < su.NumFields(); i++ {
			if sl, ok := su.Field(i).Type().Underlying().(*types.Slice); ok {
				for j := range e.fl.leaves(sl.Elem()) {
					out = append(out, e.keyElem(sl.Elem(), j))
				}
			}
		}
	}
	return out
}

func wrapperRecvType(f *ssa.Function) types.Type {
	if recv := f.Signature.Recv(); recv != nil {
		return recv.Type()
	}
	if len(f.Params) > 0 {
		return f.Params[0].Type()
	}
	return nil
}

// smtStringLiteral decodes an SMT-LIB string literal term.
func smtStringLiteral(t string) (string, bool) {
	if len(t) < 2 || t[0] != '"' || t[len(t)-1] != '"' {
		return "", false
	}
	body := t[1 : len(t)-1]
	body = strings.ReplaceAll(body, `""`, `"`)
	// \u{hex} escapes
	var b strings.Builder
	for i := 0; i < len(body); i++ {
		if strings.HasPrefix(body[i:], "\\u{") {
			j := strings.IndexByte(body[i:], '}')
			if j > 0 {
				var r rune
				fmt.Sscanf(body[i+3:i+j], "%x", &r)
				b.WriteRune(r)
				i += j
				continue
			}
		}
		b.WriteByte(body[i])
	}
	return b.String(), true
}
