package main

// Symbolic execution of one function body over the loop-cut CFG.

import (
	"fmt"
	"go/ast"
	"go/constant"
	"go/token"
	"go/types"
	"sort"
	"strings"

	"golang.org/x/tools/go/ssa"
)

type loopInfo struct {
	header *ssa.BasicBlock
	body   map[*ssa.BasicBlock]bool
	ord    int // 1-based ordinal in source order
	rng    *ssa.Range
	idxAlloc *ssa.Alloc // rangeindex cell for slice ranges
	// canonical counting loop `for v := a; v < E; v++` (recognised on the syntax tree): cntUp is the spec expression
	// "v - 1" that `$i` denotes at the loop head (the last value for which the body completed), autoDec the variant
	// "E - v" that is tried when the contract gives no decreases clause. Both are only *candidates*: the variant is an
	// ordinary obligation on every back edge, so a body that changes v or E is caught by the solver.
	cntUp   *SExpr
	autoDec *SExpr
	autoInv *Clause // `v >= c` / `v <= c` for a counting loop that starts at the literal c: checked like a written invariant
}

type FnExec struct {
	e        *Engine
	fn       *ssa.Function
	con      *FnContract
	isTop    bool
	loops    map[*ssa.BasicBlock]*loopInfo
	loopList []*loopInfo
	rpo      []*ssa.BasicBlock
	edges    map[[2]int]*State // (from, to) -> state on that edge
	rets     []*State
	retVals  []*Val
	old      *State
	args     []*Val
	prefix   string
	curLoop  *loopInfo
	loopHead map[*loopInfo]*State // state at loop head after havoc+assume (for variants)
	parent   *FnExec
	topHeld  []heldLock
	acqState *State
	retPos   []token.Pos
	dynFn     *SV            // function value of the dynamic call whose contract is being applied ($fn)
	retOrd    []int          // source-order ordinal (1-based) of each recorded return site
	retIndex  map[*ssa.Return]int
	callCount map[string]int // ordinal of the most recent call site per callee name
	callDyn   map[string]int
	callOrd   map[string]map[token.Pos]int
	callResT  map[string]types.Type // result types of recorded call sites ($call("name#n"))
}

func (fx *FnExec) analyzeCFG() {
	fn := fx.fn
	// reverse postorder ignoring back edges (dominator-based back edges)
	seen := map[*ssa.BasicBlock]bool{}
	var post []*ssa.BasicBlock
	var dfs func(b *ssa.BasicBlock)
	dfs = func(b *ssa.BasicBlock) {
		seen[b] = true
		for _, s := range b.Succs {
			if !seen[s] {
				dfs(s)
			}
		}
		post = append(post, b)
	}
	if len(fn.Blocks) == 0 {
		return
	}
	dfs(fn.Blocks[0])
	for i := len(post) - 1; i >= 0; i-- {
		fx.rpo = append(fx.rpo, post[i])
	}
	fx.loops = map[*ssa.BasicBlock]*loopInfo{}
	for _, b := range fx.rpo {
		for _, s := range b.Succs {
			if s.Dominates(b) { // back edge b -> s
				li := fx.loops[s]
				if li == nil {
					li = &loopInfo{header: s, body: map[*ssa.BasicBlock]bool{s: true}}
					fx.loops[s] = li
				}
				// natural loop: nodes reaching b without passing s
				stack := []*ssa.BasicBlock{b}
				for len(stack) > 0 {
					x := stack[len(stack)-1]
					stack = stack[:len(stack)-1]
					if li.body[x] {
						continue
					}
					li.body[x] = true
					for _, p := range x.Preds {
						stack = append(stack, p)
					}
				}
			}
		}
	}
	for _, li := range fx.loops {
		fx.loopList = append(fx.loopList, li)
	}
	sort.Slice(fx.loopList, func(i, j int) bool { return fx.loopList[i].header.Index < fx.loopList[j].header.Index })
	// order loops by source position of header when available
	sort.SliceStable(fx.loopList, func(i, j int) bool {
		return blockPos(fx.loopList[i].header) < blockPos(fx.loopList[j].header)
	})
	for i, li := range fx.loopList {
		li.ord = i + 1
		for _, in := range li.header.Instrs {
			if nx, ok := in.(*ssa.Next); ok {
				if r, ok := nx.Iter.(*ssa.Range); ok {
					li.rng = r
				}
			}
		}
		// slice range: header loads/stores a cell commented "rangeindex"
		for _, in := range li.header.Instrs {
			if st, ok := in.(*ssa.Store); ok {
				if a, ok := st.Addr.(*ssa.Alloc); ok && a.Comment == "rangeindex" {
					li.idxAlloc = a
				}
			}
		}
	}
	fx.recogniseCountingLoops()
}

// recogniseCountingLoops maps every loop to the innermost for statement that contains its header and, when that
// statement has the shape `for [v := a]; v < E; v++` (or <=, or the decreasing forms with --), records the candidate
// variant and the meaning of `$i`.
func (fx *FnExec) recogniseCountingLoops() {
	syn := fx.fn.Syntax()
	if syn == nil {
		return
	}
	var fors []*ast.ForStmt
	ast.Inspect(syn, func(n ast.Node) bool {
		switch x := n.(type) {
		case *ast.FuncLit:
			return ast.Node(x) == syn
		case *ast.ForStmt:
			fors = append(fors, x)
		}
		return true
	})
	used := map[*ast.ForStmt]bool{}
	for _, li := range fx.loopList {
		if li.idxAlloc != nil || li.rng != nil {
			continue
		}
		pos := blockPos(li.header)
		var best *ast.ForStmt
		for _, f := range fors {
			if f.Pos() <= pos && pos < f.End() && (best == nil || f.Pos() > best.Pos()) {
				best = f
			}
		}
		if best == nil || used[best] || best.Cond == nil || best.Post == nil {
			continue
		}
		used[best] = true
		var v string
		up := true
		switch p := best.Post.(type) {
		case *ast.IncDecStmt:
			id, ok := p.X.(*ast.Ident)
			if !ok {
				continue
			}
			v, up = id.Name, p.Tok == token.INC
		case *ast.AssignStmt:
			id, ok := p.Lhs[0].(*ast.Ident)
			lit, ok2 := p.Rhs[0].(*ast.BasicLit)
			if len(p.Lhs) != 1 || !ok || !ok2 || lit.Value != "1" || (p.Tok != token.ADD_ASSIGN && p.Tok != token.SUB_ASSIGN) {
				continue
			}
			v, up = id.Name, p.Tok == token.ADD_ASSIGN
		default:
			continue
		}
		c, ok := best.Cond.(*ast.BinaryExpr)
		if !ok {
			continue
		}
		isV := func(x ast.Expr) bool { id, ok := x.(*ast.Ident); return ok && id.Name == v }
		var bound ast.Expr
		strict := false
		switch {
		case isV(c.X) && up && (c.Op == token.LSS || c.Op == token.LEQ):
			bound, strict = c.Y, c.Op == token.LSS
		case isV(c.Y) && up && (c.Op == token.GTR || c.Op == token.GEQ):
			bound, strict = c.X, c.Op == token.GTR
		case isV(c.X) && !up && (c.Op == token.GTR || c.Op == token.GEQ):
			bound, strict = c.Y, c.Op == token.GTR
		case isV(c.Y) && !up && (c.Op == token.LSS || c.Op == token.LEQ):
			bound, strict = c.X, c.Op == token.LSS
		default:
			continue
		}
		b := types.ExprString(bound)
		text := "(" + b + ") - " + v
		if !up {
			text = v + " - (" + b + ")"
		}
		if !strict {
			text += " + 1"
		}
		if x, err := parseSpecExpr(text); err == nil {
			li.autoDec = x
		}
		if up {
			if x, err := parseSpecExpr(v + " - 1"); err == nil {
				li.cntUp = x
			}
		}
		if as, ok := best.Init.(*ast.AssignStmt); ok && as.Tok == token.DEFINE && len(as.Lhs) == 1 && len(as.Rhs) == 1 {
			if id, ok := as.Lhs[0].(*ast.Ident); ok && id.Name == v {
				if lit, ok := as.Rhs[0].(*ast.BasicLit); ok && lit.Kind == token.INT {
					op := " >= "
					if !up {
						op = " <= "
					}
					if x, err := parseSpecExpr(v + op + lit.Value); err == nil {
						li.autoInv = &Clause{Label: "auto-bound", Expr: x, Src: v + op + lit.Value}
					}
				}
			}
		}
	}
}

// autoVariantOK reports whether the candidate variant of a counting loop can be evaluated in both states (the bound may
// be an expression the contract language cannot read, e.g. a call); a failed trial leaves no trace.
func (fx *FnExec) autoVariantOK(li *loopInfo, head, bs *State) (ok bool) {
	e := fx.e
	n := len(e.specErrors)
	defer func() {
		if r := recover(); r != nil {
			ok = false
		}
		if len(e.specErrors) > n {
			e.specErrors = e.specErrors[:n]
			ok = false
		}
	}()
	fx.evalSpecInt(li.autoDec, head, fx.oldFor(head), li)
	fx.evalSpecInt(li.autoDec, bs, fx.oldFor(bs), li)
	return true
}

// ghostInitAt: ghost state about an object begins at zero when the object is allocated (ghost maps keyed by *T are
// ghost fields of T): for every ghost `map[*T]V` the entry of the new object is V's zero value.
func (fx *FnExec) ghostInitAt(st *State, ref string, et types.Type) {
	e := fx.e
	n, ok := et.(*types.Named)
	if !ok || n.Obj().Pkg() == nil {
		return
	}
	if _, isStruct := n.Underlying().(*types.Struct); !isStruct {
		return
	}
	var names []string
	for name := range e.w.spec.Ghosts {
		names = append(names, name)
	}
	sort.Strings(names)
	for _, name := range names {
		g := e.w.spec.Ghosts[name]
		if g.Type == nil || g.Type.Kind != "map" || g.Type.Key == nil || g.Type.Key.Kind != "ptr" {
			continue
		}
		kt := e.resolveType(g.Type.Key, g.Pkg)
		vt := e.resolveType(g.Type.Elem, g.Pkg)
		if kt == nil || vt == nil {
			continue
		}
		pt, ok := kt.Underlying().(*types.Pointer)
		if !ok || !types.Identical(pt.Elem(), et) {
			continue
		}
		env := &SpecEnv{fx: fx, e: e, st: st, vars: map[string]*SV{}, pkg: g.Pkg}
		sv := env.ghostValue(g)
		if sv == nil {
			continue
		}
		z := e.fl.zero(e.c, vt)
		for i, l := range sv.V.L {
			if i < len(z) {
				e.assume(st, eq(sel(l, ref), z[i]))
			}
		}
	}
}

// inheritOwnership: a pointer to a struct object (or a slice, by its backing array) that is stored into a container stays
// private to this activation only if the container is private: once it is reachable from a shared object (or a
// package-level variable: container ""), other goroutines can reach it, and its guarded fields need their lock from then
// on. Not retroactive: objects stored into a container that is published later keep their status (stated limit).
func (fx *FnExec) inheritOwnership(st *State, t types.Type, leaves []string, container string) {
	e := fx.e
	var ref string
	switch u := t.Underlying().(type) {
	case *types.Pointer:
		n, ok := u.Elem().(*types.Named)
		if !ok || n.Obj().Pkg() == nil || len(leaves) != 1 {
			return
		}
		if _, isStruct := n.Underlying().(*types.Struct); !isStruct {
			return
		}
		ref = leaves[0]
		if b, ok := e.refBirth[container]; !(ok && b > 0) {
			if e.escaped == nil {
				e.escaped = map[string]bool{}
			}
			e.escaped["type:"+n.Obj().Pkg().Path()+"."+n.Obj().Name()] = true
		}
	case *types.Slice:
		if len(leaves) != 3 {
			return
		}
		ref = leaves[0]
	default:
		return
	}
	mk := e.keyMine()
	m := e.heapGet(st, mk)
	keep := "false"
	if container != "" {
		keep = sel(m, container)
	}
	e.heapWrite(st, mk, store(m, ref, and(sel(m, ref), keep)), ref)
}

// rangedValue returns the slice a range-over-slice loop iterates: go/ssa evaluates it once before the loop, takes its
// length, and the loop head compares the incremented index with that length.
func rangedValue(li *loopInfo) ssa.Value {
	if len(li.header.Instrs) == 0 {
		return nil
	}
	br, ok := li.header.Instrs[len(li.header.Instrs)-1].(*ssa.If)
	if !ok {
		return nil
	}
	cmp, ok := br.Cond.(*ssa.BinOp)
	if !ok || cmp.Op != token.LSS {
		return nil
	}
	call, ok := cmp.Y.(*ssa.Call)
	if !ok {
		return nil
	}
	if b, ok := call.Call.Value.(*ssa.Builtin); !ok || b.Name() != "len" || len(call.Call.Args) != 1 {
		return nil
	}
	x := call.Call.Args[0]
	if _, isSlice := x.Type().Underlying().(*types.Slice); !isSlice {
		return nil
	}
	return x
}

func blockPos(b *ssa.BasicBlock) token.Pos {
	var best token.Pos
	for _, in := range b.Instrs {
		if p := in.Pos(); p.IsValid() && (best == 0 || p < best) {
			best = p
		}
	}
	if best == 0 {
		// use first successor's position
		for _, s := range b.Succs {
			for _, in := range s.Instrs {
				if p := in.Pos(); p.IsValid() && (best == 0 || p < best) {
					best = p
				}
			}
		}
	}
	return best
}

// run executes fn from state st with the given arguments; returns exit state and result value.
func (fx *FnExec) run(st *State, args []*Val, binds []*Val) (*State, *Val) {
	fn := fx.fn
	e := fx.e
	fx.analyzeCFG()
	fx.edges = map[[2]int]*State{}
	fx.loopHead = map[*loopInfo]*State{}
	// bind
	if fx.isTop {
		for i, p := range fn.Params {
			st.regs[p] = args[i]
		}
		for i, fv := range fn.FreeVars {
			st.regs[fv] = binds[i]
		}
	} else {
		for i, p := range fn.Params {
			st.regs[p] = args[i]
		}
		for i, fv := range fn.FreeVars {
			if i < len(binds) {
				st.regs[fv] = binds[i]
			}
		}
	}
	fx.args = args
	if fx.old == nil {
		fx.old = st.clone()
	}
	if len(fn.Blocks) == 0 {
		return st, nil
	}
	fx.edges[[2]int{-1, 0}] = st
	all := map[*ssa.BasicBlock]bool{}
	for _, b := range fx.rpo {
		all[b] = true
	}
	fx.execRegion(all, nil)
	// merge returns
	if len(fx.rets) == 0 {
		dead := st.clone()
		dead.pc = "false"
		return dead, nil
	}
	out := e.mergeStates(fx.rets)
	var rv *Val
	if fx.retVals[0] != nil {
		pcs := make([]string, len(fx.rets))
		for i, r := range fx.rets {
			pcs[i] = r.pc
		}
		mt := func(ts []string, sort Sort, hint string) string {
			same := true
			for _, t := range ts[1:] {
				if t != ts[0] {
					same = false
				}
			}
			if same {
				return ts[0]
			}
			body := ts[len(ts)-1]
			for i := len(ts) - 2; i >= 0; i-- {
				body = ite(pcs[i], ts[i], body)
			}
			return e.c.defineEq(hint, sort, body)
		}
		res := fn.Signature.Results()
		var rt types.Type = res
		if res.Len() == 1 {
			rt = res.At(0).Type()
		}
		rv = e.mergeVals(fx.retVals, mt, rt)
	}
	return out, rv
}

// execRegion executes the blocks of `set` in RPO. If loop != nil the region is the body of that loop,
// whose header state has been prepared in fx.edges[{-2, header}].
func (fx *FnExec) execRegion(set map[*ssa.BasicBlock]bool, loop *loopInfo) {
	done := map[*ssa.BasicBlock]bool{}
	for _, b := range fx.rpo {
		if !set[b] || done[b] {
			continue
		}
		if li := fx.loops[b]; li != nil && li != loop {
			fx.execLoop(li)
			for x := range li.body {
				done[x] = true
			}
			continue
		}
		var st *State
		if loop != nil && b == loop.header {
			st = fx.edges[[2]int{-2, b.Index}]
		} else {
			st = fx.inState(b, loop)
		}
		if st == nil {
			continue // unreachable
		}
		fx.execBlock(b, st, loop)
	}
}

// inState merges the forward incoming edges of b.
func (fx *FnExec) inState(b *ssa.BasicBlock, loop *loopInfo) *State {
	var ins []*State
	if b.Index == 0 {
		if s := fx.edges[[2]int{-1, 0}]; s != nil {
			ins = append(ins, s)
		}
	}
	for _, p := range b.Preds {
		if b.Dominates(p) {
			continue // back edge
		}
		if s := fx.edges[[2]int{p.Index, b.Index}]; s != nil && s.pc != "false" {
			ins = append(ins, s)
		}
	}
	if len(ins) == 0 {
		return nil
	}
	return fx.e.mergeStates(ins)
}

func (fx *FnExec) setEdge(from, to *ssa.BasicBlock, st *State) {
	k := [2]int{from.Index, to.Index}
	if old := fx.edges[k]; old != nil {
		// both branches of an If to the same block
		fx.edges[k] = fx.e.mergeStates([]*State{old, st})
		return
	}
	fx.edges[k] = st
}

func (fx *FnExec) execLoop(li *loopInfo) {
	e := fx.e
	in := fx.inState(li.header, nil)
	if in == nil {
		return
	}
	lc := fx.loopContract(li)
	// 1. invariants hold on entry
	for _, inv := range lc.invs {
		for i, nt := range fx.evalSpecSplit(inv.Expr, in, fx.oldFor(in), li) {
			e.addObl("contract", fmt.Sprintf("loop%d:inv%s%s:entry", li.ord, inv.labelStr(), partName(nt, i)), fx.partTags(inv, nt), in, nt.term, li.header.Instrs[0].Pos())
		}
	}
	// 2. discover what the body writes
	tr := e.pushTrack()
	e.suppress++
	saveEdges := fx.edges
	fx.edges = map[[2]int]*State{}
	for k, v := range saveEdges {
		fx.edges[k] = v
	}
	saveRets, saveRV := fx.rets, fx.retVals
	fx.edges[[2]int{-2, li.header.Index}] = in.clone()
	fx.execRegion(li.body, li)
	fx.edges = saveEdges
	fx.rets, fx.retVals = saveRets, saveRV
	e.suppress--
	e.popTrack()
	// propagate discovered writes to outer trackers
	for _, t := range e.tracks {
		for k, f := range tr.keys {
			if old, ok := t.keys[k]; ok {
				t.keys[k] = old && f
			} else {
				t.keys[k] = f
			}
		}
		for a := range tr.allocs {
			t.allocs[a] = true
		}
		for l := range tr.locks {
			t.locks[l] = true
		}
		t.blocking = t.blocking || tr.blocking
	}
	// 3. havoc
	st := in.clone()
	allocBefore := e.heapGet(st, e.keyAlloc())
	keys := make([]string, 0, len(tr.keys))
	for k := range tr.keys {
		keys = append(keys, k)
	}
	sort.Strings(keys)
	var lockKeys []string
	for _, k := range keys {
		if k == e.keyAlloc() || strings.HasPrefix(k, heldKeyPrefix) {
			continue
		}
		if strings.HasPrefix(k, "K|") {
			// lock state is not havocked: the body must leave it as it found it (checked at the back edge)
			lockKeys = append(lockKeys, k)
			continue
		}
		if tr.keys[k] {
			e.heapHavocFresh(st, k, allocBefore)
			continue
		}
		// frame by object: when every write in the body goes to objects whose references are loop-invariant terms,
		// only those rows are havocked
		if !tr.anyRef[k] && len(tr.refs[k]) > 0 && len(tr.refs[k]) <= 4 {
			var refs []string
			ok := true
			for r := range tr.refs[k] {
				if !e.stableTerm(r, tr.seq0) {
					ok = false
					break
				}
				refs = append(refs, r)
			}
			sort.Strings(refs)
			if ok && e.heapHavocRows(st, k, refs) {
				continue
			}
		}
		e.heapHavoc(st, k)
	}
	// allocation counter only grows
	if _, ok := tr.keys[e.keyAlloc()]; ok || true {
		na := e.c.fresh("alloc", SInt)
		st.heap[e.keyAlloc()] = na
		e.assume(st, "(>= "+na+" "+allocBefore+")")
		e.assumeTrackedWF(st)
	}
	var allocs []*ssa.Alloc
	for a := range tr.allocs {
		allocs = append(allocs, a)
	}
	sort.Slice(allocs, func(i, j int) bool { return allocs[i].Pos() < allocs[j].Pos() || (allocs[i].Pos() == allocs[j].Pos() && allocs[i].Name() < allocs[j].Name()) })
	for _, a := range allocs {
		if _, ok := st.locals[a]; !ok {
			continue // allocated inside the loop body
		}
		et := a.Type().(*types.Pointer).Elem()
		v := e.freshVal(st, "h_"+a.Comment, et)
		st.locals[a] = v.L
	}
	// slice range: the compiler-generated index cell is only written by the header's increment
	if li.idxAlloc != nil {
		if cur, ok := st.locals[li.idxAlloc]; ok {
			e.assume(st, "(>= "+cur[0]+" (- 1))")
			// and stays below the (loop-invariant) length it is compared with
			for _, in := range li.header.Instrs {
				if bo, ok := in.(*ssa.BinOp); ok && bo.Op == token.LSS {
					if lv, ok := st.regs[bo.Y]; ok && len(lv.L) == 1 {
						e.assume(st, "(< "+cur[0]+" (ite (> "+lv.L[0]+" 0) "+lv.L[0]+" 0))")
					} else if c, ok := bo.Y.(*ssa.Const); ok {
						cv := fx.constVal(c)
						e.assume(st, "(< "+cur[0]+" (ite (> "+cv.L[0]+" 0) "+cv.L[0]+" 0))")
					}
				}
			}
		}
	}
	// 4. assume invariants
	for _, inv := range lc.invs {
		g := fx.evalSpecBool(inv.Expr, st, fx.oldFor(st), li)
		e.assume(st, g)
	}
	fx.loopHead[li] = st.clone()
	// 5. real execution of the body
	fx.edges[[2]int{-2, li.header.Index}] = st
	fx.execRegion(li.body, li)
	// 6. back edges: invariant preserved, variant decreases
	head := fx.loopHead[li]
	termDone := false
	for _, p := range li.header.Preds {
		if !li.header.Dominates(p) {
			continue
		}
		bs := fx.edges[[2]int{p.Index, li.header.Index}]
		if bs == nil || bs.pc == "false" {
			continue
		}
		for _, inv := range lc.invs {
			for i, nt := range fx.evalSpecSplit(inv.Expr, bs, fx.oldFor(bs), li) {
				e.addObl("contract", fmt.Sprintf("loop%d:inv%s%s:preserve", li.ord, inv.labelStr(), partName(nt, i)), fx.partTags(inv, nt), bs, nt.term, li.header.Instrs[0].Pos())
			}
		}
		for _, k := range lockKeys {
			e.addObl("lock", fmt.Sprintf("balanced:loop%d:%s", li.ord, e.heapInfo[k].base), e.autoTags("lock", fx.fn), bs, eq(e.heapGet(bs, k), e.heapGet(head, k)), li.header.Instrs[0].Pos())
		}
		switch {
		case lc.blocking:
			// no variant demanded
		case lc.dec != nil:
			v0 := fx.evalSpecInt(lc.dec.Expr, head, fx.oldFor(head), li)
			v1 := fx.evalSpecInt(lc.dec.Expr, bs, fx.oldFor(bs), li)
			e.addObl("term", fmt.Sprintf("decreases:loop%d", li.ord), e.autoTags("term", fx.fn), bs, and("(< "+v1+" "+v0+")", "(>= "+v0+" 0)"), li.header.Instrs[0].Pos())
		case li.rng != nil:
			// map range: terminates when the body does not insert into the ranged map (finite maps)
			mt := li.rng.X.Type().Underlying()
			ok := "true"
			if m, isMap := mt.(*types.Map); isMap {
				mref := fx.val(head, li.rng.X).L[0]
				d0 := e.mapDom(head, m, mref)
				d1 := e.mapDom(bs, m, mref)
				ks, _ := e.mapSorts(m)
				ok = fmt.Sprintf("(forall ((k!q %s)) (=> (select %s k!q) (select %s k!q)))", ks, d1, d0)
			}
			e.addObl("term", fmt.Sprintf("maprange:loop%d", li.ord), e.autoTags("term", fx.fn), bs, ok, li.header.Instrs[0].Pos())
		case li.autoDec != nil && fx.autoVariantOK(li, head, bs):
			// counting loop without a decreases clause: the variant read off the loop condition is tried
			v0 := fx.evalSpecInt(li.autoDec, head, fx.oldFor(head), li)
			v1 := fx.evalSpecInt(li.autoDec, bs, fx.oldFor(bs), li)
			e.addObl("term", fmt.Sprintf("decreases:loop%d", li.ord), e.autoTags("term", fx.fn), bs, and("(< "+v1+" "+v0+")", "(>= "+v0+" 0)"), li.header.Instrs[0].Pos())
		case li.idxAlloc != nil:
			// slice range: index strictly increases towards a fixed length: structural
			if !termDone {
				e.addObl("term", fmt.Sprintf("slicerange:loop%d", li.ord), e.autoTags("term", fx.fn), bs, "true", li.header.Instrs[0].Pos())
				termDone = true
			}
		default:
			o := e.addObl("term", fmt.Sprintf("decreases:loop%d", li.ord), e.autoTags("term", fx.fn), bs, "false", li.header.Instrs[0].Pos())
			if o != nil {
				o.Static = "loop has no decreases clause and is not declared blocking"
			}
		}
	}
}

// execBlock executes the instructions of b.
func (fx *FnExec) execBlock(b *ssa.BasicBlock, st *State, loop *loopInfo) {
	e := fx.e
	if e.w.opts.ReachBlocks && fx.isTop && e.suppress == 0 && len(b.Instrs) > 0 {
		if o := e.addObl("reach", fmt.Sprintf("block:%s", b.Comment), e.autoTags("reach", fx.fn), st, "true", b.Instrs[0].Pos()); o != nil {
			o.Reach = true
			o.Static = ""
		}
	}
	for _, in := range b.Instrs {
		if st.pc == "false" {
			return
		}
		switch in := in.(type) {
		case *ssa.If:
			c := fx.val(st, in.Cond).L[0]
			t := st.clone()
			t.pc = e.c.defineAlways("pc", SBool, and(st.pc, c))
			f := st
			f.pc = e.c.defineAlways("pc", SBool, and(st.pc, not(c)))
			if c == "true" {
				f.pc = "false"
			}
			if c == "false" {
				t.pc = "false"
			}
			fx.setEdge(b, b.Succs[0], t)
			fx.setEdge(b, b.Succs[1], f)
			return
		case *ssa.Jump:
			fx.setEdge(b, b.Succs[0], st)
			return
		case *ssa.Return:
			var rv *Val
			switch len(in.Results) {
			case 0:
			case 1:
				rv = fx.val(st, in.Results[0])
			default:
				rv = &Val{}
				for _, r := range in.Results {
					rv.Tup = append(rv.Tup, fx.val(st, r))
				}
			}
			fx.rets = append(fx.rets, st)
			fx.retVals = append(fx.retVals, rv)
			fx.retPos = append(fx.retPos, in.Pos())
			fx.retOrd = append(fx.retOrd, fx.returnOrdinal(in))
			if fx.isTop && !(fx.con != nil && fx.con.DeadReturns[fx.returnOrdinal(in)]) {
				if o := e.addObl("reach", fmt.Sprintf("return:%s", e.exprText(fx.fn, in.Pos())), e.autoTags("reach", fx.fn), st, "true", in.Pos()); o != nil {
					o.Reach = true
					o.Static = ""
				}
			}
			return
		case *ssa.Panic:
			e.addObl("nopanic", "panic:"+e.exprText(fx.fn, in.Pos()), fx.tagsNoPanic(), st, "false", in.Pos())
			return
		default:
			fx.execInstr(st, in)
		}
	}
}

func (fx *FnExec) tagsNoPanic() []string { return fx.e.autoTags("nopanic", fx.fn) }

// val returns the symbolic value of an SSA value in state st.
func (fx *FnExec) val(st *State, v ssa.Value) *Val {
	e := fx.e
	if r, ok := st.regs[v]; ok {
		return r
	}
	switch v := v.(type) {
	case *ssa.Const:
		return fx.constVal(v)
	case *ssa.Global:
		t := v.Type().(*types.Pointer).Elem()
		n := len(e.fl.leaves(t))
		return &Val{Loc: &Loc{Kind: LGlobal, G: v, Root: t, T: t, Lo: 0, Hi: n, Path: v.Name()}}
	case *ssa.Function:
		id := e.c.constant("fn_"+smtName(fnKey(v)), SInt)
		return &Val{Fn: v, L: []string{id}}
	case *ssa.Builtin:
		return &Val{}
	}
	// undefined register (e.g. defined in an unreachable block): havoc
	e.outsideSubset(fmt.Sprintf("use of undefined register %s in %s", v.Name(), fx.fn.Name()))
	return e.freshVal(st, "undef", v.Type())
}

func (fx *FnExec) constVal(c *ssa.Const) *Val {
	e := fx.e
	t := c.Type()
	if c.Value == nil {
		// zero value (nil)
		return &Val{L: e.fl.zero(e.c, t)}
	}
	switch u := t.Underlying().(type) {
	case *types.Basic:
		switch {
		case u.Info()&types.IsBoolean != 0:
			if constant.BoolVal(c.Value) {
				return scalar("true")
			}
			return scalar("false")
		case u.Info()&types.IsInteger != 0:
			s := c.Value.ExactString()
			if iv, ok := constant.Int64Val(constant.ToInt(c.Value)); ok {
				s = fmt.Sprint(iv)
			} else if uv, ok := constant.Uint64Val(constant.ToInt(c.Value)); ok {
				s = fmt.Sprint(uv)
			}
			return scalar(intLit(s))
		case u.Info()&types.IsString != 0:
			return scalar(e.c.strLit(constant.StringVal(c.Value)))
		case u.Info()&types.IsFloat != 0:
			f, _ := constant.Float64Val(c.Value)
			return scalar(fpLit(f))
		}
	}
	e.outsideSubset("constant of type " + t.String())
	return &Val{L: e.fl.zero(e.c, t)}
}

func fpLit(f float64) string {
	if f == 0 {
		return "(_ +zero 11 53)"
	}
	s := fmt.Sprintf("%.17g", f)
	neg := false
	if strings.HasPrefix(s, "-") {
		neg = true
		s = s[1:]
	}
	// use exact rational
	r := constant.MakeFloat64(f)
	num := constant.Num(r).ExactString()
	den := constant.Denom(r).ExactString()
	num = strings.TrimPrefix(num, "-")
	t := fmt.Sprintf("((_ to_fp 11 53) RNE (/ %s.0 %s.0))", num, den)
	if neg {
		t = "(fp.neg " + t + ")"
	}
	_ = s
	return t
}

func (fx *FnExec) setReg(st *State, v ssa.Value, val *Val) {
	st.regs[v] = val
}

// ptrLoc turns a pointer value into a location for load/store.
func (fx *FnExec) ptrLoc(st *State, pv *Val, ptrT types.Type, pos token.Pos, what string) *Loc {
	e := fx.e
	if pv.Loc != nil {
		return pv.Loc
	}
	pt, ok := ptrT.Underlying().(*types.Pointer)
	if !ok {
		panic("ptrLoc on non-pointer " + ptrT.String())
	}
	et := pt.Elem()
	ref := pv.L[0]
	e.addObl("nopanic", "nil:"+what, fx.tagsNoPanic(), st, not(eq(ref, "0")), pos)
	e.assume(st, not(eq(ref, "0")))
	n := len(e.fl.leaves(et))
	if _, isStruct := et.Underlying().(*types.Struct); isStruct && !isLockType(et) {
		if len(e.fl.leaves(et)) == 1 && e.fl.leaves(et)[0].Path == "" {
			// opaque struct behind a pointer: cell
			return &Loc{Kind: LCell, Ref: ref, S: et, Root: et, T: et, Lo: 0, Hi: n}
		}
		return &Loc{Kind: LField, Ref: ref, S: et, Root: et, T: et, Lo: 0, Hi: n}
	}
	return &Loc{Kind: LCell, Ref: ref, S: et, Root: et, T: et, Lo: 0, Hi: n}
}

func (fx *FnExec) execInstr(st *State, in ssa.Instruction) {
	e := fx.e
	switch in := in.(type) {
	case *ssa.DebugRef:
		return
	case *ssa.Alloc:
		et := in.Type().(*types.Pointer).Elem()
		if at, ok := et.Underlying().(*types.Array); ok {
			arr := e.newRef(st, "arr")
			el := e.fl.leaves(at.Elem())
			z := e.fl.zero(e.c, at.Elem())
			for i := range el {
				k := e.keyElem(at.Elem(), i)
				e.heapWrite(st, k, store(e.heapGet(st, k), arr, e.constArray(arrSort(SInt, el[i].Sort), z[i])), arr)
			}
			fx.setReg(st, in, &Val{L: []string{arr}})
			return
		}
		if !in.Heap {
			st.locals[in] = e.fl.zero(e.c, et)
			fx.setReg(st, in, &Val{Loc: &Loc{Kind: LLocal, Alloc: in, Root: et, T: et, Lo: 0, Hi: len(e.fl.leaves(et))}})
			return
		}
		ref := e.newRef(st, "new_"+shortTypeName(et))
		fx.ghostInitAt(st, ref, et)
		ls := e.fl.leaves(et)
		z := e.fl.zero(e.c, et)
		_, isStruct := et.Underlying().(*types.Struct)
		transparentStruct := isStruct && !(len(ls) == 1 && ls[0].Path == "")
		if transparentStruct {
			for i := range ls {
				k := e.keyField(et, i)
				e.heapWrite(st, k, store(e.heapGet(st, k), ref, z[i]), ref)
			}
			// locks inside start free
			fx.initLocks(st, et, "", ref)
			if k := e.keyIsA(et); k != "" {
				e.heapWrite(st, k, store(e.heapGet(st, k), ref, "true"), ref)
			}
			fx.setReg(st, in, &Val{L: []string{ref}})
			return
		}
		for i := range ls {
			k := e.keyCell(et, i)
			e.heapWrite(st, k, store(e.heapGet(st, k), ref, z[i]), ref)
		}
		fx.setReg(st, in, &Val{L: []string{ref}, Loc: &Loc{Kind: LCell, Ref: ref, S: et, Root: et, T: et, Lo: 0, Hi: len(ls)}})
	case *ssa.FieldAddr:
		xv := fx.val(st, in.X)
		st0 := in.X.Type().Underlying().(*types.Pointer).Elem()
		su := st0.Underlying().(*types.Struct)
		fld := su.Field(in.Field)
		if xv.Loc != nil && xv.Loc.Kind != LCell {
			base := xv.Loc
			lo, hi := e.fl.fieldRange(base.T, in.Field)
			nl := *base
			nl.Lo, nl.Hi = base.Lo+lo, base.Lo+hi
			nl.T = fld.Type()
			if nl.Path != "" && base.Kind != LGlobal {
				nl.Path += "." + fld.Name()
			} else if base.Kind == LGlobal {
				nl.Path = base.Path + "." + fld.Name()
			} else {
				nl.Path = fld.Name()
			}
			fx.setReg(st, in, &Val{Loc: &nl})
			return
		}
		ref := xv.L[0]
		what := shortTypeName(st0) + "." + fld.Name()
		e.addObl("nopanic", "nil:"+what, fx.tagsNoPanic(), st, not(eq(ref, "0")), in.Pos())
		e.assume(st, not(eq(ref, "0")))
		if ls := e.fl.leaves(st0); len(ls) == 1 && ls[0].Path == "" && !isLockType(st0) {
			// field of an opaque (external) struct: its own heap array
			ft := fld.Type()
			fx.setReg(st, in, &Val{Loc: &Loc{Kind: LCell, Ref: ref, S: ft, Root: ft, T: ft, Lo: 0, Hi: len(e.fl.leaves(ft)), Path: fld.Name(), Key: typeKey(st0) + "." + fld.Name()}})
			return
		}
		lo, hi := e.fl.fieldRange(st0, in.Field)
		fx.setReg(st, in, &Val{Loc: &Loc{Kind: LField, Ref: ref, S: st0, Root: st0, T: fld.Type(), Lo: lo, Hi: hi, Path: fld.Name()}})
	case *ssa.Field:
		xv := fx.val(st, in.X)
		lo, hi := e.fl.fieldRange(in.X.Type(), in.Field)
		if len(xv.L) < hi {
			e.outsideSubset("field of opaque struct value " + in.X.Type().String())
			fx.setReg(st, in, e.freshVal(st, "fld", in.Type()))
			return
		}
		nv := &Val{L: xv.L[lo:hi]}
		fx.setReg(st, in, nv)
	case *ssa.IndexAddr:
		xv := fx.val(st, in.X)
		idx := fx.val(st, in.Index).L[0]
		what := e.exprText(fx.fn, in.Pos())
		switch xt := in.X.Type().Underlying().(type) {
		case *types.Slice:
			arr, off, ln := xv.L[0], xv.L[1], xv.L[2]
			e.addObl("nopanic", "index:"+what, fx.tagsNoPanic(), st, and("(<= 0 "+idx+")", "(< "+idx+" "+ln+")"), in.Pos())
			e.assume(st, and("(<= 0 "+idx+")", "(< "+idx+" "+ln+")"))
			pos := idx
			if off != "0" {
				pos = "(+ " + off + " " + idx + ")"
			}
			et := xt.Elem()
			fx.setReg(st, in, &Val{Loc: &Loc{Kind: LElem, Arr: arr, Idx: pos, Root: et, T: et, Lo: 0, Hi: len(e.fl.leaves(et))}})
		case *types.Pointer:
			at := xt.Elem().Underlying().(*types.Array)
			if !isNumLit(idx) {
				e.addObl("nopanic", "index:"+what, fx.tagsNoPanic(), st, and("(<= 0 "+idx+")", fmt.Sprintf("(< %s %d)", idx, at.Len())), in.Pos())
			}
			et := at.Elem()
			fx.setReg(st, in, &Val{Loc: &Loc{Kind: LElem, Arr: xv.L[0], Idx: idx, Root: et, T: et, Lo: 0, Hi: len(e.fl.leaves(et))}})
		default:
			e.outsideSubset("IndexAddr on " + in.X.Type().String())
			fx.setReg(st, in, e.freshVal(st, "idx", in.Type()))
		}
	case *ssa.Index:
		xv := fx.val(st, in.X)
		if _, ok := in.X.Type().Underlying().(*types.Basic); ok {
			// string index
			idx := fx.val(st, in.Index).L[0]
			ln := fx.strLen(xv.L[0])
			e.addObl("nopanic", "index:"+e.exprText(fx.fn, in.Pos()), fx.tagsNoPanic(), st, and("(<= 0 "+idx+")", "(< "+idx+" "+ln+")"), in.Pos())
			f := e.c.fun("strbyte", []Sort{e.fl.strSort(), SInt}, SInt)
			r := app(f, xv.L[0], idx)
			e.assume(st, and("(<= 0 "+r+")", "(<= "+r+" 255)"))
			fx.setReg(st, in, scalar(r))
			return
		}
		e.outsideSubset("Index on array value")
		fx.setReg(st, in, e.freshVal(st, "idx", in.Type()))
	case *ssa.UnOp:
		fx.execUnOp(st, in)
	case *ssa.Store:
		av := fx.val(st, in.Addr)
		vv := fx.val(st, in.Val)
		loc := fx.ptrLoc(st, av, in.Addr.Type(), in.Pos(), e.exprText(fx.fn, in.Pos()))
		fx.checkAccess(st, loc, true, in.Pos())
		leaves := vv.L
		if len(leaves) != loc.Hi-loc.Lo {
			// function values / closures stored: make an id
			leaves = fx.asLeaves(st, vv, loc.T)
		}
		e.storeLoc(st, loc, leaves)
		switch loc.Kind {
		case LField:
			fx.inheritOwnership(st, in.Val.Type(), leaves, loc.Ref)
		case LElem:
			fx.inheritOwnership(st, in.Val.Type(), leaves, loc.Arr)
		case LGlobal:
			fx.inheritOwnership(st, in.Val.Type(), leaves, "")
		}
		fx.raiseCondFlag(st, loc)
		fx.checkOnAssign(st, in, loc)
		if sl, isSlice := loc.T.Underlying().(*types.Slice); isSlice && loc.Kind == LField && fx.fieldClass(loc) == "immutable" && len(leaves) == 3 {
			// snapshot the contents into the immutable-content heap
			arr := leaves[0]
			for i := range e.fl.leaves(sl.Elem()) {
				src := e.heapGet(st, e.keyElemOf(sl.Elem(), i, arr))
				e.immArr[arr] = true
				ki := e.keyElemOf(sl.Elem(), i, arr)
				e.heapWrite(st, ki, store(e.heapGet(st, ki), arr, sel(src, arr)), arr)
				delete(e.immArr, arr)
			}
		}
		fx.noteStoredMeta(st, loc, vv)
	case *ssa.BinOp:
		fx.execBinOp(st, in)
	case *ssa.Convert:
		fx.execConvert(st, in)
	case *ssa.ChangeType:
		fx.setReg(st, in, fx.val(st, in.X))
	case *ssa.ChangeInterface:
		fx.setReg(st, in, fx.val(st, in.X))
	case *ssa.MakeInterface:
		fx.setReg(st, in, fx.makeIface(st, fx.val(st, in.X), in.X.Type()))
	case *ssa.TypeAssert:
		fx.execTypeAssert(st, in)
	case *ssa.Extract:
		tv := fx.val(st, in.Tuple)
		if in.Index < len(tv.Tup) {
			fx.setReg(st, in, tv.Tup[in.Index])
		} else {
			e.outsideSubset("extract from non-tuple")
			fx.setReg(st, in, e.freshVal(st, "ext", in.Type()))
		}
	case *ssa.MakeMap:
		ref := e.newRef(st, "map")
		m := in.Type().Underlying().(*types.Map)
		ks, _ := e.mapSorts(m)
		kd, kl := e.keyMapDom(m), e.keyMapLen(m)
		e.heapWrite(st, kd, store(e.heapGet(st, kd), ref, fmt.Sprintf("((as const %s) false)", arrSort(ks, SBool))), ref)
		e.heapWrite(st, kl, store(e.heapGet(st, kl), ref, "0"), ref)
		fx.setReg(st, in, scalar(ref))
	case *ssa.MakeChan:
		ref := e.newRef(st, "chan")
		k := e.keyChanClosed()
		e.heapWrite(st, k, store(e.heapGet(st, k), ref, "false"), ref)
		fx.setReg(st, in, scalar(ref))
	case *ssa.MakeSlice:
		ln := fx.val(st, in.Len).L[0]
		e.addObl("nopanic", "makeslice:"+e.exprText(fx.fn, in.Pos()), fx.tagsNoPanic(), st, "(>= "+ln+" 0)", in.Pos())
		arr := e.newRef(st, "arr")
		et := in.Type().Underlying().(*types.Slice).Elem()
		el := e.fl.leaves(et)
		z := e.fl.zero(e.c, et)
		for i := range el {
			k := e.keyElem(et, i)
			e.heapWrite(st, k, store(e.heapGet(st, k), arr, e.constArray(arrSort(SInt, el[i].Sort), z[i])), arr)
		}
		fx.setReg(st, in, &Val{L: []string{arr, "0", ln}})
	case *ssa.MakeClosure:
		fn := in.Fn.(*ssa.Function)
		id := e.c.fresh("closure_"+fn.Name(), SInt)
		e.assume(st, "(> "+id+" 0)")
		v := &Val{Fn: fn, L: []string{id}}
		for _, b := range in.Bindings {
			v.Binds = append(v.Binds, fx.val(st, b))
		}
		fx.closureSite(st, in, v)
		fx.setReg(st, in, v)
	case *ssa.Lookup:
		xv := fx.val(st, in.X)
		if m, ok := in.X.Type().Underlying().(*types.Map); ok {
			key := fx.val(st, in.Index).L[0]
			vals, okT := e.mapLookup(st, m, xv.L[0], key)
			if in.CommaOk {
				fx.setReg(st, in, &Val{Tup: []*Val{{L: vals}, scalar(okT)}})
			} else {
				fx.setReg(st, in, &Val{L: vals})
			}
			return
		}
		// string index
		idx := fx.val(st, in.Index).L[0]
		ln := fx.strLen(xv.L[0])
		e.addObl("nopanic", "index:"+e.exprText(fx.fn, in.Pos()), fx.tagsNoPanic(), st, and("(<= 0 "+idx+")", "(< "+idx+" "+ln+")"), in.Pos())
		fx.setReg(st, in, e.freshVal(st, "strb", in.Type()))
	case *ssa.MapUpdate:
		mv := fx.val(st, in.Map)
		m := in.Map.Type().Underlying().(*types.Map)
		key := fx.val(st, in.Key).L[0]
		vv := fx.val(st, in.Value)
		e.addObl("nopanic", "nilmap:"+e.exprText(fx.fn, in.Pos()), fx.tagsNoPanic(), st, not(eq(mv.L[0], "0")), in.Pos())
		leaves := vv.L
		if len(leaves) != len(e.fl.leaves(m.Elem())) {
			leaves = fx.asLeaves(st, vv, m.Elem())
		}
		fx.checkMapAccess(st, in.Map, true, in.Pos())
		e.mapUpdate(st, m, mv.L[0], key, leaves)
		fx.inheritOwnership(st, m.Elem(), leaves, mv.L[0])
	case *ssa.Slice:
		fx.execSlice(st, in)
	case *ssa.Range:
		xv := fx.val(st, in.X)
		if m, ok := in.X.Type().Underlying().(*types.Map); ok {
			ks, _ := e.mapSorts(m)
			k := fx.iterKey(in, ks)
			fx.checkMapAccess(st, in.X, false, in.Pos())
			e.heapSet(st, k, fmt.Sprintf("((as const %s) false)", arrSort(ks, SBool)))
			e.trackWrite(k, "")
			fx.setReg(st, in, &Val{Iter: in, L: xv.L})
			return
		}
		e.outsideSubset("range over string")
		fx.setReg(st, in, &Val{Iter: in, L: xv.L})
	case *ssa.Next:
		fx.execNext(st, in)
	case *ssa.Phi:
		// merge per incoming edge
		b := in.Block()
		var vals []*Val
		var pcs []string
		for i, p := range b.Preds {
			es := fx.edges[[2]int{p.Index, b.Index}]
			if es == nil || es.pc == "false" {
				continue
			}
			vals = append(vals, fx.val(es, in.Edges[i]))
			pcs = append(pcs, es.pc)
		}
		if len(vals) == 0 {
			fx.setReg(st, in, e.freshVal(st, "phi", in.Type()))
			return
		}
		mt := func(ts []string, sort Sort, hint string) string {
			body := ts[len(ts)-1]
			for i := len(ts) - 2; i >= 0; i-- {
				body = ite(pcs[i], ts[i], body)
			}
			return e.c.defineEq(hint, sort, body)
		}
		fx.setReg(st, in, e.mergeVals(vals, mt, in.Type()))
	case *ssa.Call:
		rv := fx.execCall(st, in, in.Common(), false)
		if rv != nil {
			fx.setReg(st, in, rv)
		}
	case *ssa.Go:
		fx.execGo(st, in)
	case *ssa.Defer:
		d := deferred{instr: in}
		c := in.Common()
		if !c.IsInvoke() {
			d.fn = fx.val(st, c.Value)
		} else {
			d.fn = fx.val(st, c.Value)
		}
		for _, a := range c.Args {
			d.args = append(d.args, fx.val(st, a))
		}
		st.defers = append(st.defers, d)
	case *ssa.RunDefers:
		ds := st.defers
		st.defers = nil
		for i := len(ds) - 1; i >= 0; i-- {
			fx.execDeferred(st, ds[i])
		}
	case *ssa.Send:
		ch := fx.val(st, in.Chan).L[0]
		e.addObl("nopanic", "send-closed:"+e.exprText(fx.fn, in.Pos()), fx.tagsNoPanic(), st, not(sel(e.heapGet(st, e.keyChanClosed()), ch)), in.Pos())
		fx.blockingPoint(st, "send", in.Pos(), nil)
	case *ssa.Select:
		fx.execSelect(st, in)
	case *ssa.MultiConvert, *ssa.SliceToArrayPointer:
		e.outsideSubset(fmt.Sprintf("%T", in))
		if v, ok := in.(ssa.Value); ok {
			fx.setReg(st, v, e.freshVal(st, "x", v.Type()))
		}
	default:
		e.outsideSubset(fmt.Sprintf("instruction %T", in))
		if v, ok := in.(ssa.Value); ok {
			fx.setReg(st, v, e.freshVal(st, "x", v.Type()))
		}
	}
}

func (fx *FnExec) iterKey(r *ssa.Range, ks Sort) string {
	e := fx.e
	p := e.w.fset.Position(r.Pos())
	k := fmt.Sprintf("It|%s|%s|%d", fnKey(fx.fn), fx.prefix, p.Offset)
	if _, ok := e.heapInfo[k]; !ok {
		e.regHeap(k, arrSort(ks, SBool), "visited", "It", nil)
	}
	return k
}

// asLeaves converts a meta-level value (function/closure) to leaves of type t.
func (fx *FnExec) asLeaves(st *State, v *Val, t types.Type) []string {
	e := fx.e
	n := len(e.fl.leaves(t))
	if len(v.L) == n {
		return v.L
	}
	if v.Loc != nil && n == 1 {
		// address of a local/field escaping into memory
		e.outsideSubset("address of a variable or field stored in memory")
		return []string{e.c.fresh("addr", SInt)}
	}
	e.outsideSubset(fmt.Sprintf("value with %d leaves stored as %s (%d leaves)", len(v.L), t, n))
	return e.freshVal(st, "x", t).L
}

// noteStoredMeta remembers meta-level info (closures) stored in locals so that later loads can recover it.
func (fx *FnExec) noteStoredMeta(st *State, loc *Loc, v *Val) {
	if v.Fn != nil && len(v.L) == 1 {
		fx.e.fnById[v.L[0]] = v
	}
}

func (fx *FnExec) strLen(s string) string {
	e := fx.e
	if e.c.strTheory {
		return "(str.len " + s + ")"
	}
	f := e.c.fun("strlen", []Sort{SStr}, SInt)
	return app(f, s)
}

func (fx *FnExec) initLocks(st *State, t types.Type, path string, ref string) {
	e := fx.e
	su, ok := t.Underlying().(*types.Struct)
	if !ok {
		return
	}
	root := t
	var walk func(su *types.Struct, prefix string)
	walk = func(su *types.Struct, prefix string) {
		for i := 0; i < su.NumFields(); i++ {
			f := su.Field(i)
			p := f.Name()
			if prefix != "" {
				p = prefix + "." + p
			}
			if isLockType(f.Type()) {
				k := e.keyLock(root, p)
				e.heapWrite(st, k, store(e.heapGet(st, k), ref, "0"), ref)
			} else if s2, ok := f.Type().Underlying().(*types.Struct); ok {
				if n, isNamed := f.Type().(*types.Named); !isNamed || e.fl.isTransparent(n) {
					walk(s2, p)
				}
			}
		}
	}
	walk(su, path)
}

func (fx *FnExec) execUnOp(st *State, in *ssa.UnOp) {
	e := fx.e
	xv := fx.val(st, in.X)
	switch in.Op {
	case token.MUL: // load
		loc := fx.ptrLoc(st, xv, in.X.Type(), in.Pos(), e.exprText(fx.fn, in.Pos()))
		fx.checkAccess(st, loc, false, in.Pos())
		leaves := e.loadLoc(st, loc)
		v := &Val{L: leaves}
		if loc.Kind == LField {
			v.Origin = "field:" + typeKey(loc.S) + "." + loc.Path
			if st0, isSlice := loc.T.Underlying().(*types.Slice); isSlice && fx.fieldClass(loc) == "immutable" && len(leaves) == 3 {
				_ = st0
				e.immArr[leaves[0]] = true
			}
		}
		// function values: remember origin for dyn contracts
		if _, ok := in.Type().Underlying().(*types.Signature); ok {
			switch loc.Kind {
			case LLocal:
				if loc.Alloc != nil && loc.Alloc.Comment != "" {
					v.Origin = "local:" + fnKey(fx.fn) + "." + loc.Alloc.Comment
				}
			case LGlobal:
				v.Origin = "global:" + loc.G.Pkg.Pkg.Path() + "." + loc.G.Name()
			case LField:
				v.Origin = "field:" + typeKey(loc.S) + "." + loc.Path
			}
			if len(leaves) == 1 {
				if fv, ok := e.fnById[leaves[0]]; ok {
					v = fv
				}
			}
		}
		fx.typeInvOnLoad(st, in.Type(), v)
		fx.setReg(st, in, v)
	case token.NOT:
		fx.setReg(st, in, scalar(not(xv.L[0])))
	case token.SUB:
		if isFloat(in.Type()) {
			fx.setReg(st, in, scalar("(fp.neg "+xv.L[0]+")"))
			return
		}
		fx.setReg(st, in, scalar(e.c.define("neg", SInt, wrapLinear("(- "+xv.L[0]+")", in.Type()))))
	case token.XOR:
		_, hi, ok := intRange(in.Type())
		if !ok {
			e.outsideSubset("^ on non-integer")
			fx.setReg(st, in, e.freshVal(st, "x", in.Type()))
			return
		}
		_, signed := intBits(in.Type())
		if signed {
			fx.setReg(st, in, scalar("(- (- "+xv.L[0]+") 1)"))
		} else {
			fx.setReg(st, in, scalar("(- "+hi+" "+xv.L[0]+")"))
		}
	case token.ARROW:
		// channel receive
		fx.blockingPoint(st, "recv", in.Pos(), []string{xv.L[0]})
		if key := fieldKeyOf(in.X); key != "" {
			if _, co := e.w.spec.CloseOnly[key]; co {
				// nobody sends on a close-only channel: the receive returns only once it is closed
				e.assume(st, sel(e.heapGet(st, e.keyChanClosed()), xv.L[0]))
			}
		}
		if in.CommaOk {
			fx.setReg(st, in, &Val{Tup: []*Val{e.freshVal(st, "recv", in.X.Type().Underlying().(*types.Chan).Elem()), e.freshVal(st, "ok", types.Typ[types.Bool])}})
		} else {
			fx.setReg(st, in, e.freshVal(st, "recv", in.Type()))
		}
	default:
		e.outsideSubset("unop " + in.Op.String())
		fx.setReg(st, in, e.freshVal(st, "x", in.Type()))
	}
}

func isFloat(t types.Type) bool {
	b, ok := t.Underlying().(*types.Basic)
	return ok && b.Info()&types.IsFloat != 0
}
func isInteger(t types.Type) bool {
	b, ok := t.Underlying().(*types.Basic)
	return ok && b.Info()&types.IsInteger != 0
}
func isString(t types.Type) bool {
	b, ok := t.Underlying().(*types.Basic)
	return ok && b.Info()&types.IsString != 0
}

func (fx *FnExec) pow2Fun() string {
	e := fx.e
	name := "pow2"
	if _, ok := e.c.decls[name]; !ok {
		var b strings.Builder
		b.WriteString("(define-fun pow2 ((n Int)) Int ")
		close := 0
		v := uint64(1)
		for i := 0; i < 64; i++ {
			fmt.Fprintf(&b, "(ite (= n %d) %d ", i, v)
			v *= 2
			close++
		}
		b.WriteString("0")
		b.WriteString(strings.Repeat(")", close))
		b.WriteString(")")
		e.c.rawCmd(name, b.String())
	}
	return name
}

func (fx *FnExec) execBinOp(st *State, in *ssa.BinOp) {
	e := fx.e
	xv, yv := fx.val(st, in.X), fx.val(st, in.Y)
	t := in.X.Type()
	res := func(s string, sort Sort) {
		fx.setReg(st, in, scalar(e.c.define("b", sort, s)))
	}
	switch in.Op {
	case token.EQL, token.NEQ:
		var cs []string
		if isFloat(t) {
			cs = append(cs, "(fp.eq "+xv.L[0]+" "+yv.L[0]+")")
		} else if len(xv.L) == 0 && (xv.Loc != nil || yv.Loc != nil) {
			e.outsideSubset("comparison of meta-level pointers")
			cs = append(cs, e.c.fresh("cmp", SBool))
		} else {
			xl, yl := xv.L, yv.L
			if len(xl) != len(yl) {
				// nil constant against slice etc.
				e.outsideSubset("comparison with different leaf counts")
				cs = append(cs, e.c.fresh("cmp", SBool))
			} else if _, isSlice := t.Underlying().(*types.Slice); isSlice {
				// slice == nil: nil slice has arr 0
				cs = append(cs, eq(xl[0], yl[0]))
			} else {
				for i := range xl {
					cs = append(cs, eq(xl[i], yl[i]))
				}
			}
		}
		r := and(cs...)
		if in.Op == token.NEQ {
			r = not(r)
		}
		res(r, SBool)
		return
	case token.LSS, token.LEQ, token.GTR, token.GEQ:
		op := map[token.Token]string{token.LSS: "<", token.LEQ: "<=", token.GTR: ">", token.GEQ: ">="}[in.Op]
		if isFloat(t) {
			fop := map[token.Token]string{token.LSS: "fp.lt", token.LEQ: "fp.leq", token.GTR: "fp.gt", token.GEQ: "fp.geq"}[in.Op]
			res("("+fop+" "+xv.L[0]+" "+yv.L[0]+")", SBool)
			return
		}
		if isString(t) {
			if e.c.strTheory {
				sop := map[token.Token]string{token.LSS: "str.<", token.LEQ: "str.<="}[in.Op]
				if sop != "" {
					res("("+sop+" "+xv.L[0]+" "+yv.L[0]+")", SBool)
				} else if in.Op == token.GTR {
					res("(str.< "+yv.L[0]+" "+xv.L[0]+")", SBool)
				} else {
					res("(str.<= "+yv.L[0]+" "+xv.L[0]+")", SBool)
				}
				return
			}
			f := e.c.fun("strless", []Sort{SStr, SStr}, SBool)
			_ = f
			e.outsideSubset("string ordering")
			res(e.c.fresh("cmp", SBool), SBool)
			return
		}
		res("("+op+" "+xv.L[0]+" "+yv.L[0]+")", SBool)
		return
	}
	if isString(t) && in.Op == token.ADD {
		if e.c.strTheory {
			res("(str.++ "+xv.L[0]+" "+yv.L[0]+")", "String")
		} else {
			f := e.c.fun("strconcat", []Sort{SStr, SStr}, SStr)
			res(app(f, xv.L[0], yv.L[0]), SStr)
		}
		return
	}
	if isFloat(t) {
		fop := map[token.Token]string{token.ADD: "fp.add", token.SUB: "fp.sub", token.MUL: "fp.mul", token.QUO: "fp.div"}[in.Op]
		if fop == "" {
			e.outsideSubset("float op " + in.Op.String())
			fx.setReg(st, in, e.freshVal(st, "x", in.Type()))
			return
		}
		res("("+fop+" RNE "+xv.L[0]+" "+yv.L[0]+")", SFP)
		return
	}
	if b, ok := t.Underlying().(*types.Basic); ok && b.Info()&types.IsBoolean != 0 {
		switch in.Op {
		case token.AND, token.LAND:
			res(and(xv.L[0], yv.L[0]), SBool)
		case token.OR, token.LOR:
			res(or(xv.L[0], yv.L[0]), SBool)
		default:
			e.outsideSubset("bool op " + in.Op.String())
			fx.setReg(st, in, e.freshVal(st, "x", in.Type()))
		}
		return
	}
	if !isInteger(t) {
		e.outsideSubset("binop " + in.Op.String() + " on " + t.String())
		fx.setReg(st, in, e.freshVal(st, "x", in.Type()))
		return
	}
	x, y := xv.L[0], yv.L[0]
	rt := in.Type()
	_, signed := intBits(rt)
	what := e.exprText(fx.fn, in.Pos())
	switch in.Op {
	case token.ADD:
		res(wrapLinear("(+ "+x+" "+y+")", rt), SInt)
	case token.SUB:
		res(wrapLinear("(- "+x+" "+y+")", rt), SInt)
	case token.MUL:
		if isNumLit(x) || isNumLit(y) {
			res(wrapMod("(* "+x+" "+y+")", rt), SInt)
		} else {
			res(wrapMod("(* "+x+" "+y+")", rt), SInt)
		}
	case token.QUO, token.REM:
		e.addObl("nopanic", "div:"+what, fx.tagsNoPanic(), st, not(eq(y, "0")), in.Pos())
		e.assume(st, not(eq(y, "0")))
		var q string
		if !signed {
			q = "(div " + x + " " + y + ")"
		} else {
			// truncated division
			q = fmt.Sprintf("(ite (>= %s 0) (ite (> %s 0) (div %s %s) (- (div %s (- %s)))) (ite (> %s 0) (- (div (- %s) %s)) (div (- %s) (- %s))))", x, y, x, y, x, y, y, x, y, x, y)
		}
		if in.Op == token.QUO {
			res(wrapLinear(q, rt), SInt)
		} else {
			if !signed {
				res("(mod "+x+" "+y+")", SInt)
			} else {
				res("(- "+x+" (* "+y+" "+q+"))", SInt)
			}
		}
	case token.SHL:
		bits, _ := intBits(rt)
		if isNumLit(y) {
			var n int
			fmt.Sscan(y, &n)
			if n >= bits {
				res("0", SInt)
			} else {
				res(wrapMod(fmt.Sprintf("(* %s %s)", x, pow2str(n)), rt), SInt)
			}
		} else {
			p := fx.pow2Fun()
			res(fmt.Sprintf("(ite (>= %s %d) 0 %s)", y, bits, wrapMod(fmt.Sprintf("(* %s (%s %s))", x, p, y), rt)), SInt)
		}
	case token.SHR:
		bits, _ := intBits(rt)
		if isNumLit(y) {
			var n int
			fmt.Sscan(y, &n)
			if n >= bits {
				res(ite("(>= "+x+" 0)", "0", "(- 1)"), SInt)
			} else {
				res(fmt.Sprintf("(div %s %s)", x, pow2str(n)), SInt)
			}
		} else {
			p := fx.pow2Fun()
			res(fmt.Sprintf("(ite (>= %s %d) (ite (>= %s 0) 0 (- 1)) (div %s (%s %s)))", y, bits, x, x, p, y), SInt)
		}
	case token.AND:
		// x & (2^k - 1) with constant mask
		if isNumLit(y) && isMask(y) && !signed {
			res(fmt.Sprintf("(mod %s %s)", x, addOne(y)), SInt)
			return
		}
		fallthrough
	default:
		e.outsideSubset("integer op " + in.Op.String() + " (result havocked)")
		fx.setReg(st, in, e.freshVal(st, "bits", rt))
	}
}

func pow2str(n int) string {
	v := uint64(1)
	if n >= 64 {
		return "18446744073709551616"
	}
	return fmt.Sprint(v << uint(n))
}

func isMask(s string) bool {
	var v uint64
	if _, err := fmt.Sscan(s, &v); err != nil {
		return false
	}
	return v != 0 && (v&(v+1)) == 0
}
func addOne(s string) string {
	var v uint64
	fmt.Sscan(s, &v)
	if v == ^uint64(0) {
		return "18446744073709551616"
	}
	return fmt.Sprint(v + 1)
}

func (fx *FnExec) execConvert(st *State, in *ssa.Convert) {
	e := fx.e
	xv := fx.val(st, in.X)
	from, to := in.X.Type(), in.Type()
	switch {
	case isInteger(from) && isInteger(to):
		flo, fhi, _ := intRange(from)
		tlo, thi, _ := intRange(to)
		if isNumLit(xv.L[0]) || (cmpNum(flo, tlo) >= 0 && cmpNum(fhi, thi) <= 0) {
			if isNumLit(xv.L[0]) {
				fx.setReg(st, in, scalar(e.c.define("cv", SInt, wrapMod(xv.L[0], to))))
			} else {
				fx.setReg(st, in, xv)
			}
			return
		}
		fx.setReg(st, in, scalar(e.c.define("cv", SInt, wrapMod(xv.L[0], to))))
	case isInteger(from) && isFloat(to):
		// uninterpreted conversion with axioms that are proved as bit-vector/floating-point lemmas
		// (/verif/contracts/lemmas/fp_*.smt2): monotone, finite, zero
		fx.setReg(st, in, scalar(app(e.fpConvFuns(), xv.L[0])))
	case isFloat(from) && isInteger(to):
		lo, hi, _ := intRange(to)
		x := xv.L[0]
		// Go: a conversion whose truncated value is out of range is implementation-defined but never panics: the
		// result is an arbitrary value of the type (f2i64 is constrained by the axioms only for in-range arguments)
		e.fpConvFuns()
		r := app("f2i64", x)
		e.assume(st, and("(<= "+lo+" "+r+")", "(<= "+r+" "+hi+")"))
		fx.setReg(st, in, scalar(e.c.define("f2i", SInt, r)))
	case isFloat(from) && isFloat(to):
		fx.setReg(st, in, xv)
	case isString(to) || isString(from):
		f := e.c.fun("conv_"+shortTypeName(from)+"_to_"+shortTypeName(to), sortsOf(e.fl.leaves(from)), e.fl.leaves(to)[0].Sort)
		if len(e.fl.leaves(to)) == 1 {
			fx.setReg(st, in, scalar(app(f, xv.L...)))
		} else {
			v := e.freshVal(st, "conv", to)
			fx.setReg(st, in, v)
		}
	default:
		// pointer <-> unsafe.Pointer etc.
		if len(e.fl.leaves(from)) == len(e.fl.leaves(to)) {
			fx.setReg(st, in, xv)
			return
		}
		e.outsideSubset("convert " + from.String() + " -> " + to.String())
		fx.setReg(st, in, e.freshVal(st, "conv", to))
	}
}

func sortsOf(ls []Leaf) []Sort {
	var out []Sort
	for _, l := range ls {
		out = append(out, l.Sort)
	}
	return out
}

func cmpNum(a, b string) int {
	// compare SMT integer literals
	parse := func(s string) (neg bool, digits string) {
		if strings.HasPrefix(s, "(- ") {
			return true, s[3 : len(s)-1]
		}
		return false, s
	}
	an, ad := parse(a)
	bn, bd := parse(b)
	cmpAbs := func(x, y string) int {
		if len(x) != len(y) {
			if len(x) < len(y) {
				return -1
			}
			return 1
		}
		return strings.Compare(x, y)
	}
	switch {
	case an && !bn:
		return -1
	case !an && bn:
		return 1
	case an && bn:
		return -cmpAbs(ad, bd)
	}
	return cmpAbs(ad, bd)
}

// ---------- interfaces ----------

func (fx *FnExec) typeTag(t types.Type) string {
	e := fx.e
	name := "tag_" + shortTypeName(t)
	if _, ok := e.c.decls[smtName(name)]; !ok {
		c := e.c.constant(name, SInt)
		e.typeTags = append(e.typeTags, c)
		// distinct from previous tags
		for _, o := range e.typeTags[:len(e.typeTags)-1] {
			a, b := o, c
			e.c.axiom("tagdist:"+a+":"+b, "(distinct "+a+" "+b+")", a, b)
		}
	}
	return smtName(name)
}

func (fx *FnExec) makeIface(st *State, xv *Val, t types.Type) *Val {
	e := fx.e
	if _, ok := t.Underlying().(*types.Interface); ok {
		return xv
	}
	ls := e.fl.leaves(t)
	leaves := xv.L
	if len(leaves) != len(ls) {
		leaves = fx.asLeaves(st, xv, t)
	}
	tn := shortTypeName(t)
	mk := e.c.fun("mkif_"+tn, sortsOf(ls), SInt)
	id := e.c.define("if", SInt, app(mk, leaves...))
	if len(ls) == 0 {
		id = mk
	}
	tof := e.c.fun("typeof", []Sort{SInt}, SInt)
	facts := []string{"(> " + id + " 0)", eq(app(tof, id), fx.typeTag(t))}
	for i, l := range ls {
		ub := e.c.fun(fmt.Sprintf("unbox_%s_%d", tn, i), []Sort{SInt}, l.Sort)
		facts = append(facts, eq(app(ub, id), leaves[i]))
	}
	e.assume(st, and(facts...))
	v := &Val{L: []string{id}}
	if xv.Fn != nil {
		v.Fn, v.Binds = xv.Fn, xv.Binds
	}
	return v
}

func (fx *FnExec) execTypeAssert(st *State, in *ssa.TypeAssert) {
	e := fx.e
	xv := fx.val(st, in.X)
	x := xv.L[0]
	tof := e.c.fun("typeof", []Sort{SInt}, SInt)
	var ok string
	var val *Val
	if _, isIface := in.AssertedType.Underlying().(*types.Interface); isIface {
		imp := e.c.fun("implements_"+shortTypeName(in.AssertedType), []Sort{SInt}, SBool)
		ok = and(not(eq(x, "0")), app(imp, app(tof, x)))
		val = &Val{L: []string{x}}
	} else {
		t := in.AssertedType
		ls := e.fl.leaves(t)
		tn := shortTypeName(t)
		ok = e.c.define("isT", SBool, and(not(eq(x, "0")), eq(app(tof, x), fx.typeTag(t))))
		val = &Val{}
		z := e.fl.zero(e.c, t)
		for i, l := range ls {
			ub := e.c.fun(fmt.Sprintf("unbox_%s_%d", tn, i), []Sort{SInt}, l.Sort)
			if in.CommaOk {
				val.L = append(val.L, e.c.define("ta", l.Sort, ite(ok, app(ub, x), z[i])))
			} else {
				val.L = append(val.L, e.c.define("ta", l.Sort, app(ub, x)))
			}
		}
	}
	if in.CommaOk {
		// value part gets type assumptions only when ok
		fx.setReg(st, in, &Val{Tup: []*Val{val, scalar(ok)}})
		fx.typeAssumeIf(st, ok, in.AssertedType, val)
		return
	}
	e.addObl("nopanic", "assert:"+e.exprText(fx.fn, in.Pos()), fx.tagsNoPanic(), st, ok, in.Pos())
	e.assume(st, ok)
	e.typeAssume(st, in.AssertedType, val.L)
	fx.typeInvOnLoad(st, in.AssertedType, val)
	fx.setReg(st, in, val)
}

func (fx *FnExec) typeAssumeIf(st *State, cond string, t types.Type, v *Val) {
	e := fx.e
	tmp := &State{pc: "true", heap: st.heap, locals: st.locals, regs: st.regs}
	e.typeAssume(tmp, t, v.L)
	fx.typeInvOnLoad(tmp, t, v)
	if tmp.pc != "true" {
		e.assume(st, implies(cond, tmp.pc))
	}
}

// ---------- slices ----------

func (fx *FnExec) execSlice(st *State, in *ssa.Slice) {
	e := fx.e
	xv := fx.val(st, in.X)
	what := e.exprText(fx.fn, in.Pos())
	var arr, off, ln, capT string
	switch xt := in.X.Type().Underlying().(type) {
	case *types.Slice:
		arr, off, ln = xv.L[0], xv.L[1], xv.L[2]
		capT = app(e.c.fun("slicecap", []Sort{SInt, SInt, SInt}, SInt), arr, off, ln)
		e.assume(st, "(>= "+capT+" "+ln+")")
	case *types.Pointer:
		at := xt.Elem().Underlying().(*types.Array)
		arr, off, ln = xv.L[0], "0", fmt.Sprint(at.Len())
		capT = ln
	case *types.Basic:
		// string slicing
		s := xv.L[0]
		sl := fx.strLen(s)
		lo, hi := "0", sl
		if in.Low != nil {
			lo = fx.val(st, in.Low).L[0]
		}
		if in.High != nil {
			hi = fx.val(st, in.High).L[0]
		}
		e.addObl("nopanic", "slice:"+what, fx.tagsNoPanic(), st, and("(<= 0 "+lo+")", "(<= "+lo+" "+hi+")", "(<= "+hi+" "+sl+")"), in.Pos())
		if e.c.strTheory {
			fx.setReg(st, in, scalar(fmt.Sprintf("(str.substr %s %s (- %s %s))", s, lo, hi, lo)))
		} else {
			f := e.c.fun("strsub", []Sort{SStr, SInt, SInt}, SStr)
			fx.setReg(st, in, scalar(app(f, s, lo, hi)))
		}
		return
	default:
		e.outsideSubset("slice of " + in.X.Type().String())
		fx.setReg(st, in, e.freshVal(st, "sl", in.Type()))
		return
	}
	lo, hi := "0", ln
	if in.Low != nil {
		lo = fx.val(st, in.Low).L[0]
	}
	if in.High != nil {
		hi = fx.val(st, in.High).L[0]
	}
	if in.Low != nil || in.High != nil {
		e.addObl("nopanic", "slice:"+what, fx.tagsNoPanic(), st, and("(<= 0 "+lo+")", "(<= "+lo+" "+hi+")", "(<= "+hi+" "+capT+")"), in.Pos())
	}
	noff := off
	if lo != "0" {
		noff = e.c.define("off", SInt, "(+ "+off+" "+lo+")")
	}
	nlen := hi
	if lo != "0" {
		nlen = e.c.define("len", SInt, "(- "+hi+" "+lo+")")
	}
	fx.setReg(st, in, &Val{L: []string{arr, noff, nlen}})
}

// ---------- map range ----------

func (fx *FnExec) execNext(st *State, in *ssa.Next) {
	e := fx.e
	iv := fx.val(st, in.Iter)
	r := iv.Iter
	tup := in.Type().(*types.Tuple)
	if in.IsString || r == nil {
		e.outsideSubset("next over string")
		fx.setReg(st, in, e.freshVal(st, "next", tup))
		return
	}
	m := r.X.Type().Underlying().(*types.Map)
	ks, vl := e.mapSorts(m)
	mref := iv.L[0]
	vk := fx.iterKey(r, ks)
	visited := e.heapGet(st, vk)
	dom := e.mapDom(st, m, mref)
	ok := e.c.fresh("next_ok", SBool)
	k := e.c.fresh("next_k", ks)
	e.assume(st, and(
		implies(ok, and(sel(dom, k), not(sel(visited, k)))),
		implies(not(ok), fmt.Sprintf("(forall ((k!q %s)) (! (=> (select %s k!q) (select %s k!q)) :pattern ((select %s k!q)) :pattern ((select %s k!q))))", ks, dom, visited, dom, visited)),
		implies(eq(mref, "0"), not(ok)),
	))
	e.typeAssume(st, m.Key(), []string{k})
	e.heapSet(st, vk, ite(ok, store(visited, k, "true"), visited))
	e.trackWrite(vk, "")
	var vals []string
	for i := range vl {
		vals = append(vals, e.c.define("next_v", vl[i].Sort, sel(sel(e.heapGet(st, e.keyMapVal(m, i)), mref), k)))
	}
	fx.typeAssumeIf(st, ok, m.Elem(), &Val{L: vals})
	fx.setReg(st, in, &Val{Tup: []*Val{scalar(ok), scalar(k), {L: vals}}})
}

// ---------- select / blocking ----------

func (fx *FnExec) execSelect(st *State, in *ssa.Select) {
	e := fx.e
	var chans []string
	for _, s := range in.States {
		chans = append(chans, fx.val(st, s.Chan).L[0])
	}
	if in.Blocking {
		fx.blockingPoint(st, "select", in.Pos(), chans)
	}
	// `callsite select#n asserts e`: clauses about the state in which the n-th select of the function waits
	fx.checkCallSiteAsserts(st, "select", in.Pos(), nil, nil)
	tup := in.Type().(*types.Tuple)
	idx := e.c.fresh("sel_idx", SInt)
	lo := "0"
	if !in.Blocking {
		lo = "(- 1)"
	}
	e.assume(st, and("(<= "+lo+" "+idx+")", fmt.Sprintf("(< %s %d)", idx, len(in.States))))
	v := &Val{Tup: []*Val{scalar(idx), e.freshVal(st, "recvok", types.Typ[types.Bool])}}
	for i := 2; i < tup.Len(); i++ {
		v.Tup = append(v.Tup, e.freshVal(st, "recv", tup.At(i).Type()))
	}
	fx.setReg(st, in, v)
	// close-only channels (directive `closeonly T.field`): nobody sends on them, so a receive case is taken only when
	// the channel is closed, and the default case of a non-blocking select means it is still open
	for i, s := range in.States {
		if s.Dir != types.RecvOnly {
			continue
		}
		if u, ok := s.Chan.(*ssa.UnOp); ok {
			if fa, ok := u.X.(*ssa.FieldAddr); ok {
				if pt, ok := fa.X.Type().Underlying().(*types.Pointer); ok {
					if n, ok := pt.Elem().(*types.Named); ok && n.Obj().Pkg() != nil {
						if su, ok := n.Underlying().(*types.Struct); ok {
							key := n.Obj().Pkg().Path() + "." + n.Obj().Name() + "." + su.Field(fa.Field).Name()
							if _, co := e.w.spec.CloseOnly[key]; co {
								cl := sel(e.heapGet(st, e.keyChanClosed()), chans[i])
								e.assume(st, implies(fmt.Sprintf("(= %s %d)", idx, i), cl))
								if !in.Blocking {
									e.assume(st, implies("(= "+idx+" (- 1))", not(cl)))
								}
							}
						}
					}
				}
			}
		}
	}
	// selected(): the channel of the case the most recent select took (0 for the default case)
	selCh := "0"
	for i := len(chans) - 1; i >= 0; i-- {
		selCh = ite(fmt.Sprintf("(= %s %d)", idx, i), chans[i], selCh)
	}
	k := "G|$selected|0"
	e.regHeap(k, SInt, "selected", "G", nil)
	e.heapSet(st, k, selCh)
}

func partName(nt namedTerm, i int) string {
	if nt.name != "" {
		return ":" + nt.name
	}
	if i == 0 {
		return ""
	}
	return fmt.Sprintf(":part%d", i+1)
}

func (fx *FnExec) partTags(c *Clause, nt namedTerm) []string {
	if len(c.Tags) > 0 {
		return c.Tags
	}
	if len(nt.tags) > 0 {
		return nt.tags
	}
	return fx.clauseTags(c)
}

// oldFor: the two-state reference of specs evaluated in st: the snapshot at the first lock acquisition on this path
// (atomic functions), else the function's entry state.
func (fx *FnExec) oldFor(st *State) *State {
	if st != nil && st.acq != nil && fx.isTop {
		return st.acq
	}
	return fx.old
}

// fieldClass returns the declared protection class of the (first) field of a location ("" if none).
func (fx *FnExec) fieldClass(loc *Loc) string {
	n, ok := loc.S.(*types.Named)
	if !ok || n.Obj().Pkg() == nil {
		return ""
	}
	first := loc.Path
	if i := strings.Index(first, "."); i >= 0 {
		first = first[:i]
	}
	if p := fx.e.w.spec.Protects[n.Obj().Pkg().Path()+"."+n.Obj().Name()+"."+first]; p != nil {
		return p.Class
	}
	return ""
}

// checkOnAssign: `onassign <local> asserts e`: e is proved right after the first assignment to the named local of the
// function under contract (the rule by which a value is chosen, stated where it is chosen).
func (fx *FnExec) checkOnAssign(st *State, in *ssa.Store, loc *Loc) {
	e := fx.e
	if fx.con == nil || len(fx.con.OnAssign) == 0 || e.suppress > 0 {
		return
	}
	a, ok := in.Addr.(*ssa.Alloc)
	if !ok || a.Comment == "" {
		return
	}
	if _, isParamSpill := in.Val.(*ssa.Parameter); isParamSpill {
		return
	}
	for _, oa := range fx.con.OnAssign {
		if oa.Callee != a.Comment || oa.seen {
			continue
		}
		oa.seen = true
		env := fx.specEnv(st, fx.oldFor(st), nil)
		for i, nt := range env.evalSplit(oa.C.Expr) {
			e.addObl("contract", fmt.Sprintf("onassign:%s%s%s", a.Comment, oa.C.labelStr(), partName(nt, i)), fx.clauseTags(oa.C), st, nt.term, in.Pos())
		}
	}
}

func (e *Engine) keyCondFlag(class string) string {
	k := "X|condflag|" + class
	if _, ok := e.heapInfo[k]; !ok {
		e.regHeap(k, SBool, "condflag_"+class[strings.LastIndex(class, "/")+1:], "X", nil)
	}
	return k
}

// raiseCondFlag: monitor protocol: a store to a field guarded by a lock that has a condition variable changes what
// waiters wait for; the flag must be lowered by a Broadcast before the function returns (no lost wake-up).
func (fx *FnExec) raiseCondFlag(st *State, loc *Loc) {
	e := fx.e
	if loc.Kind != LField || e.suppress > 0 {
		return
	}
	cls := fx.fieldClass(loc)
	if cls != "guarded_by" && cls != "write_once" {
		return
	}
	n, ok := loc.S.(*types.Named)
	if !ok || n.Obj().Pkg() == nil {
		return
	}
	first := loc.Path
	if i := strings.Index(first, "."); i >= 0 {
		first = first[:i]
	}
	p := e.w.spec.Protects[n.Obj().Pkg().Path()+"."+n.Obj().Name()+"."+first]
	if p == nil {
		return
	}
	for _, lockClass := range e.w.spec.Conds {
		if lockClass == p.Lock {
			if _, fresh := e.refBirth[loc.Ref]; fresh {
				return
			}
			st.heap[e.keyCondFlag(lockClass)] = "true"
		}
	}
}

// constArray: the array that maps every index to zero. cvc5 only accepts values in (as const ...), so for zero
// terms that are uninterpreted constants a declared array with a defining axiom is used instead.
func (e *Engine) constArray(sort Sort, zero string) string {
	if isNumLit(zero) || zero == "true" || zero == "false" || strings.HasPrefix(zero, "(") || strings.HasPrefix(zero, "\"") {
		return fmt.Sprintf("((as const %s) %s)", sort, zero)
	}
	name := e.c.constant("zeroarr_"+smtName(sort), sort)
	ks, _ := arrayKeySort(sort)
	e.c.axiom("zeroarr:"+name, fmt.Sprintf("(forall ((i!q %s)) (! (= (select %s i!q) %s) :pattern ((select %s i!q))))", ks, name, zero, name), name)
	return name
}

func realLit(intLit string) string {
	if strings.HasPrefix(intLit, "(- ") {
		return "(- " + intLit[3:len(intLit)-1] + ".0)"
	}
	return intLit + ".0"
}

// addOneLit adds one to a non-negative decimal SMT integer literal.
func addOneLit(s string) string {
	if strings.HasPrefix(s, "(- ") {
		return s
	}
	b := []byte(s)
	i := len(b) - 1
	for i >= 0 {
		if b[i] == '9' {
			b[i] = '0'
			i--
			continue
		}
		b[i]++
		return string(b)
	}
	return "1" + string(b)
}

// fpConvFuns declares the uninterpreted int64<->float64 conversions and their axioms; returns the name of i2f.
func (e *Engine) fpConvFuns() string {
	c := e.c
	if _, ok := c.decls["i2f64"]; ok {
		return "i2f64"
	}
	c.fun("i2f64", []Sort{SInt}, SFP)
	c.fun("f2i64", []Sort{SFP}, SInt)
	c.axiom("fp:mono", "(forall ((x!q Int) (y!q Int)) (! (=> (<= x!q y!q) (fp.leq (i2f64 x!q) (i2f64 y!q))) :pattern ((i2f64 x!q) (i2f64 y!q))))", "i2f64")
	c.axiom("fp:finite", "(forall ((x!q Int)) (! (and (not (fp.isNaN (i2f64 x!q))) (not (fp.isInfinite (i2f64 x!q)))) :pattern ((i2f64 x!q))))", "i2f64")
	c.axiom("fp:zero", "(fp.eq (i2f64 0) (_ +zero 11 53))", "i2f64")
	c.axiom("fp:sandwich", "(forall ((x!q Int) (y!q Int) (b!q (_ FloatingPoint 11 53))) (! (=> (and (<= 0 x!q) (<= x!q y!q) (<= y!q 9007199254740992) (fp.leq (i2f64 x!q) b!q) (fp.leq b!q (i2f64 y!q))) (and (<= x!q (f2i64 b!q)) (<= (f2i64 b!q) y!q))) :pattern ((i2f64 x!q) (i2f64 y!q) (f2i64 b!q))))", "f2i64")
	c.axiom("fp:positive", "(forall ((b!q (_ FloatingPoint 11 53))) (! (=> (and (fp.geq b!q ((_ to_fp 11 53) RNE 1.0)) (fp.lt b!q ((_ to_fp 11 53) RNE 9223372036854775808.0))) (>= (f2i64 b!q) 1)) :pattern ((f2i64 b!q))))", "f2i64")
	e.noteFeature("int64<->float64 conversions are uninterpreted with the axioms mono/finite/zero/sandwich/positive, each proved as a QF_FPBV lemma (contracts/lemmas/fp_*.smt2); transfer between the Int and the 64-bit vector reading of int64 is trusted")
	return "i2f64"
}

// returnOrdinal numbers the function's return instructions in source order (1-based; returns without a position last).
func (fx *FnExec) returnOrdinal(r *ssa.Return) int {
	if fx.retIndex == nil {
		fx.retIndex = map[*ssa.Return]int{}
		type ent struct {
			r   *ssa.Return
			pos token.Pos
			blk int
		}
		var es []ent
		for _, b := range fx.fn.Blocks {
			for _, in := range b.Instrs {
				if rr, ok := in.(*ssa.Return); ok {
					p := rr.Pos()
					if !p.IsValid() {
						p = token.Pos(1 << 40)
					}
					es = append(es, ent{rr, p, b.Index})
				}
			}
		}
		sort.Slice(es, func(i, j int) bool {
			if es[i].pos != es[j].pos {
				return es[i].pos < es[j].pos
			}
			return es[i].blk < es[j].blk
		})
		for i, x := range es {
			fx.retIndex[x.r] = i + 1
		}
	}
	return fx.retIndex[r]
}
