package main

// Evaluation of specification expressions to SMT terms over a symbolic state.

import (
	"go/token"
	"fmt"
	"go/types"
	"sort"
	"strconv"
	"strings"

	"golang.org/x/tools/go/ssa"
)

// SV is an evaluated spec value.
type SV struct {
	V    *Val
	T    types.Type // Go type when known (nil for ghost maps / math ints use Typ[UntypedInt])
	GK   types.Type // ghost total map: key type
	GV   types.Type // ghost total map: value type
	Math bool       // mathematical integer
}

var seqIntType types.Type = types.NewNamed(types.NewTypeName(0, nil, "seqbytes", nil), types.NewStruct(nil, nil), nil)

var seqType types.Type = types.NewNamed(types.NewTypeName(0, nil, "seq", nil), types.NewStruct(nil, nil), nil)

var (
	tBool   = types.Typ[types.Bool]
	tMath   = types.Typ[types.UntypedInt]
	tString = types.Typ[types.String]
)

type SpecEnv struct {
	fx   *FnExec
	e    *Engine
	st   *State
	old  *State
	vars map[string]*SV
	loop *loopInfo
	pkg  string // package path for name resolution
	errs *[]string
	inOld bool
}

func (env *SpecEnv) errorf(format string, a ...interface{}) {
	msg := fmt.Sprintf(format, a...)
	env.e.specErrors = append(env.e.specErrors, msg)
}

func (env *SpecEnv) with(name string, v *SV) *SpecEnv {
	n := *env
	n.vars = make(map[string]*SV, len(env.vars)+1)
	for k, x := range env.vars {
		n.vars[k] = x
	}
	n.vars[name] = v
	return &n
}

func boolSV(t string) *SV { return &SV{V: scalar(t), T: tBool} }
func mathSV(t string) *SV { return &SV{V: scalar(t), T: tMath, Math: true} }

// resolveType resolves a spec type expression in package pkgPath.
func (e *Engine) resolveType(te *STypeExpr, pkgPath string) types.Type {
	switch te.Kind {
	case "ptr":
		el := e.resolveType(te.Elem, pkgPath)
		if el == nil {
			return nil
		}
		return types.NewPointer(el)
	case "slice":
		el := e.resolveType(te.Elem, pkgPath)
		if el == nil {
			return nil
		}
		return types.NewSlice(el)
	case "map":
		k, v := e.resolveType(te.Key, pkgPath), e.resolveType(te.Elem, pkgPath)
		if k == nil || v == nil {
			return nil
		}
		return types.NewMap(k, v)
	}
	if te.Pkg == "" {
		if te.Name == "interface" {
			return types.NewInterfaceType(nil, nil)
		}
		if obj := types.Universe.Lookup(te.Name); obj != nil {
			if tn, ok := obj.(*types.TypeName); ok {
				return tn.Type()
			}
		}
		if p := e.w.typesPkg(pkgPath); p != nil {
			if obj := p.Scope().Lookup(te.Name); obj != nil {
				return obj.Type()
			}
		}
		return nil
	}
	// imported package by alias: spec imports first, then the package's own imports
	path := ""
	if m := e.w.spec.Imports[pkgPath]; m != nil {
		path = m[te.Pkg]
	}
	if path == "" {
		if p := e.w.typesPkg(pkgPath); p != nil {
			for _, imp := range p.Imports() {
				if imp.Name() == te.Pkg {
					path = imp.Path()
				}
			}
		}
	}
	if path == "" {
		// search all known packages by name
		for _, p := range e.w.allTypesPkgs() {
			if p.Name() == te.Pkg {
				if obj := p.Scope().Lookup(te.Name); obj != nil {
					return obj.Type()
				}
			}
		}
		return nil
	}
	if p := e.w.typesPkg(path); p != nil {
		if obj := p.Scope().Lookup(te.Name); obj != nil {
			return obj.Type()
		}
	}
	return nil
}

// evalSpecBool evaluates a boolean spec expression in state st (old = two-state reference).
func (fx *FnExec) evalSpecBool(x *SExpr, st *State, old *State, loop *loopInfo) string {
	env := fx.specEnv(st, old, loop)
	sv := env.eval(x)
	if sv == nil || sv.V == nil || len(sv.V.L) != 1 {
		env.errorf("spec expression %q did not evaluate to a boolean", x.Src)
		return "false"
	}
	return sv.V.L[0]
}

func (fx *FnExec) evalSpecInt(x *SExpr, st *State, old *State, loop *loopInfo) string {
	return fx.evalSpecBool(x, st, old, loop)
}

// specEnv builds the environment of the function: params, receiver, results, captured variables.
func (fx *FnExec) specEnv(st *State, old *State, loop *loopInfo) *SpecEnv {
	env := &SpecEnv{fx: fx, e: fx.e, st: st, old: old, vars: map[string]*SV{}, loop: loop}
	if fx.fn.Pkg != nil {
		env.pkg = fx.fn.Pkg.Pkg.Path()
	} else if fx.fn.Parent() != nil && fx.fn.Parent().Pkg != nil {
		env.pkg = fx.fn.Parent().Pkg.Pkg.Path()
	}
	if fx.con != nil && fx.con.Pkg != "" {
		env.pkg = fx.con.Pkg
	}
	for i, p := range fx.fn.Params {
		if i < len(fx.args) && fx.args[i] != nil {
			sv := &SV{V: fx.args[i], T: p.Type()}
			env.vars[p.Name()] = sv
			if i == 0 && fx.fn.Signature.Recv() != nil {
				env.vars["this"] = sv
			}
			if fx.con != nil && i < len(fx.con.Params) {
				env.vars[fx.con.Params[i]] = sv
			}
		}
	}
	aliasRenamed(env.vars, fx.fn)
	if loop != nil {
		// inside the body (loop invariants, variants) a parameter name denotes the current value of the parameter
		// variable, which the body may have assigned; in pre/postconditions it denotes the argument
		for _, p := range fx.fn.Params {
			if env.localVarQuick(p.Name()) != nil && env.fx != nil {
				if _, ok := st.locals[env.localVarQuick(p.Name())]; ok {
					delete(env.vars, p.Name())
					for old, cur := range renamesFor(fx.fn) {
						if cur == p.Name() {
							delete(env.vars, old)
						}
					}
				}
			}
		}
	}
	return env
}

func (env *SpecEnv) state() *State {
	if env.inOld && env.old != nil {
		return env.old
	}
	return env.st
}

func (env *SpecEnv) eval(x *SExpr) (res *SV) {
	nerr := len(env.e.specErrors)
	defer func() {
		// a sub-expression that does not bind (unknown identifier ...) evaluates to nil; operators that then fail on it
		// are a consequence of that reported error, not an engine failure
		if r := recover(); r != nil {
			if len(env.e.specErrors) > nerr {
				res = nil
				return
			}
			panic(r)
		}
	}()
	return env.eval0(x)
}

func (env *SpecEnv) eval0(x *SExpr) *SV {
	e := env.e
	switch x.Op {
	case "num":
		if strings.ContainsAny(x.Name, ".") {
			f, err := strconv.ParseFloat(x.Name, 64)
			if err != nil {
				env.errorf("bad number %s", x.Name)
				return mathSV("0")
			}
			return &SV{V: scalar(fpLit(f)), T: types.Typ[types.Float64]}
		}
		v, err := strconv.ParseInt(x.Name, 0, 64)
		if err != nil {
			uv, err2 := strconv.ParseUint(x.Name, 0, 64)
			if err2 != nil {
				env.errorf("bad number %s", x.Name)
				return mathSV("0")
			}
			return mathSV(fmt.Sprint(uv))
		}
		return mathSV(intLit(fmt.Sprint(v)))
	case "str":
		return &SV{V: scalar(e.c.strLit(x.Name)), T: tString}
	case "id":
		return env.evalIdent(x.Name)
	case "un":
		a := env.eval(x.Args[0])
		if a == nil {
			return nil
		}
		if x.Name == "!" {
			return boolSV(not(a.V.L[0]))
		}
		return mathSV("(- " + a.V.L[0] + ")")
	case "bin":
		return env.evalBin(x)
	case "sel":
		return env.evalSel(x)
	case "idx":
		return env.evalIdx(x)
	case "call":
		return env.evalCall(x)
	case "forall", "exists":
		return env.evalQuant(x)
	case "forallin", "existsin":
		return env.evalQuantIn(x)
	case "is":
		a := env.eval(x.Args[0])
		t := e.resolveType(x.TypeX, env.pkg)
		if a == nil || t == nil {
			env.errorf("cannot resolve type in 'is %s'", x.TypeX)
			return boolSV("false")
		}
		tof := e.c.fun("typeof", []Sort{SInt}, SInt)
		fx := env.fx
		if fx == nil {
			fx = &FnExec{e: e}
		}
		return boolSV(and(not(eq(a.V.L[0], "0")), eq(app(tof, a.V.L[0]), fx.typeTag(t))))
	case "tassert":
		a := env.eval(x.Args[0])
		t := e.resolveType(x.TypeX, env.pkg)
		if a == nil || t == nil {
			env.errorf("cannot resolve type assertion %s", x.TypeX)
			return nil
		}
		ls := e.fl.leaves(t)
		tn := shortTypeName(t)
		v := &Val{}
		for i, l := range ls {
			ub := e.c.fun(fmt.Sprintf("unbox_%s_%d", tn, i), []Sort{SInt}, l.Sort)
			v.L = append(v.L, app(ub, a.V.L[0]))
		}
		return &SV{V: v, T: t}
	}
	env.errorf("unknown spec node %s", x.Op)
	return nil
}

func (env *SpecEnv) evalIdent(name string) *SV {
	e := env.e
	if v, ok := env.vars[name]; ok {
		return v
	}
	switch name {
	case "true":
		return boolSV("true")
	case "false":
		return boolSV("false")
	case "nil":
		return &SV{V: scalar("0"), T: types.Typ[types.UntypedNil]}
	case "$i":
		if env.loop == nil && env.fx != nil {
			// outside a loop context (postconditions): the index cell of the function's only slice-range loop
			var only *loopInfo
			n := 0
			for _, li := range env.fx.loopList {
				if li.idxAlloc != nil {
					only = li
					n++
				}
			}
			if n == 1 {
				if cur, ok := env.state().locals[only.idxAlloc]; ok {
					return mathSV(cur[0])
				}
				return mathSV("(- 1)") // the loop was not reached on this path
			}
		}
		if env.loop != nil && env.loop.idxAlloc != nil {
			st := env.state()
			cur, ok := st.locals[env.loop.idxAlloc]
			if ok {
				return mathSV(cur[0])
			}
		}
		if env.loop != nil && env.loop.cntUp != nil {
			// counting loop `for v := 0; v < n; v++`: at the loop head the body has completed for 0..v-1
			return env.eval(env.loop.cntUp)
		}
		if env.loop == nil && env.fx != nil {
			var only *loopInfo
			n := 0
			for _, li := range env.fx.loopList {
				if li.cntUp != nil {
					only = li
					n++
				}
			}
			if n == 1 {
				n0 := len(env.e.specErrors)
				le := *env
				le.loop = only
				if v := le.eval(only.cntUp); len(env.e.specErrors) == n0 {
					return v
				}
				env.e.specErrors = env.e.specErrors[:n0]
			}
		}
		env.errorf("$i used outside a slice-range loop")
		return mathSV("0")
	case "$alloc":
		return mathSV(e.heapGet(env.state(), e.keyAlloc()))
	}
	// ghost
	if g, ok := e.w.spec.Ghosts[name]; ok {
		return env.ghostValue(g)
	}
	// local variable of the function (loop invariants, closures' captured variables)
	if env.fx != nil {
		if sv := env.localVar(name); sv != nil {
			return sv
		}
	}
	// a variable that the tree the contract was written against called `name` and the current tree renamed
	if env.fx != nil {
		if alt := env.fx.renamedLocal(name); alt != "" && alt != name {
			if v, ok := env.vars[alt]; ok {
				return v
			}
			if sv := env.localVar(alt); sv != nil {
				return sv
			}
		}
	}
	// package-level constant or variable
	if p := e.w.typesPkg(env.pkg); p != nil {
		if obj := p.Scope().Lookup(name); obj != nil {
			switch o := obj.(type) {
			case *types.Const:
				return env.constSV(o)
			case *types.Var:
				if sp := e.w.ssaPkg(env.pkg); sp != nil {
					if g, ok := sp.Members[name].(*ssa.Global); ok {
						t := o.Type()
						loc := &Loc{Kind: LGlobal, G: g, Root: t, T: t, Lo: 0, Hi: len(e.fl.leaves(t)), Path: name}
						return &SV{V: &Val{L: e.loadLoc(env.state(), loc)}, T: t}
					}
				}
			}
		}
	}
	env.errorf("unknown identifier %q in spec", name)
	return nil
}

func (env *SpecEnv) constSV(o *types.Const) *SV {
	e := env.e
	c := ssa.NewConst(o.Val(), o.Type())
	fx := env.fx
	if fx == nil {
		fx = &FnExec{e: e}
	}
	v := fx.constVal(c)
	t := o.Type()
	if b, ok := t.(*types.Basic); ok && b.Info()&types.IsUntyped != 0 {
		if b.Info()&types.IsInteger != 0 {
			return mathSV(v.L[0])
		}
	}
	return &SV{V: v, T: t}
}

// localVar finds a named local (Alloc with that Comment) or captured variable (FreeVar).
func (env *SpecEnv) localVar(name string) *SV {
	fx := env.fx
	e := env.e
	st := env.state()
	if env.inOld && env.old != nil {
		// inside old() a parameter denotes the argument (its local cell does not exist yet in the entry state)
		for i, p := range fx.fn.Params {
			if p.Name() == name && i < len(fx.args) && fx.args[i] != nil {
				return &SV{V: fx.args[i], T: p.Type()}
			}
		}
	}
	for _, fv := range fx.fn.FreeVars {
		if fv.Name() == name {
			pv := st.regs[fv]
			if pv == nil {
				return nil
			}
			pt := fv.Type().(*types.Pointer).Elem()
			loc := fx.ptrLocNoCheck(pv, fv.Type())
			return &SV{V: &Val{L: e.loadLoc(st, loc)}, T: pt}
		}
	}
	// several locals may share a name (loop variables): resolve the name by Go's scoping rules at a position inside
	// the loop body (loop clauses) or at the end of the function body (pre/postconditions)
	var found *ssa.Alloc
	if a := env.scopedAlloc(name); a != nil {
		found = a
	}
	best := -1
	if found != nil {
		best = 1 << 40
	}
	for _, b := range fx.fn.Blocks {
		for _, in := range b.Instrs {
			a, ok := in.(*ssa.Alloc)
			if !ok || a.Comment != name {
				continue
			}
			score := 0
			if env.loop != nil {
				if env.loop.body[b] {
					score = 1 << 30
				} else {
					for _, l := range fx.loopList {
						if l.body[b] && l.body[env.loop.header] {
							// an enclosing loop: the smaller, the closer
							if sc := (1 << 20) - len(l.body); sc > score {
								score = sc
							}
						}
					}
				}
			}
			if found == nil || score > best {
				found, best = a, score
			}
		}
	}
	if found == nil {
		return nil
	}
	et := found.Type().(*types.Pointer).Elem()
	if found.Heap {
		pv := st.regs[found]
		if pv == nil {
			return &SV{V: &Val{L: e.fl.zero(e.c, et)}, T: et}
		}
		loc := fx.ptrLocNoCheck(pv, found.Type())
		return &SV{V: &Val{L: e.loadLoc(st, loc)}, T: et}
	}
	cur, ok := st.locals[found]
	if !ok {
		cur = e.fl.zero(e.c, et)
	}
	return &SV{V: &Val{L: cur}, T: et}
}

func (fx *FnExec) ptrLocNoCheck(pv *Val, ptrT types.Type) *Loc {
	if pv.Loc != nil {
		return pv.Loc
	}
	e := fx.e
	et := ptrT.Underlying().(*types.Pointer).Elem()
	n := len(e.fl.leaves(et))
	if _, isStruct := et.Underlying().(*types.Struct); isStruct && !(n == 1 && e.fl.leaves(et)[0].Path == "") {
		return &Loc{Kind: LField, Ref: pv.L[0], S: et, Root: et, T: et, Lo: 0, Hi: n}
	}
	return &Loc{Kind: LCell, Ref: pv.L[0], S: et, Root: et, T: et, Lo: 0, Hi: n}
}

func (env *SpecEnv) ghostValue(g *GhostDecl) *SV {
	e := env.e
	key := "G|" + g.Name
	if g.Type.Kind == "map" && g.Type.Elem.Kind == "named" && g.Type.Elem.Pkg == "" && g.Type.Elem.Name == "seqbytes" {
		kt := e.resolveType(g.Type.Key, g.Pkg)
		if kt == nil {
			env.errorf("cannot resolve ghost type %s", g.Type)
			return nil
		}
		e.seqSetupInt()
		k := key + "|0"
		e.regHeap(k, arrSort(e.fl.leaves(kt)[0].Sort, "SeqInt"), g.Name, "G", nil)
		return &SV{V: &Val{L: []string{e.heapGet(env.state(), k)}}, GK: kt, GV: seqIntType}
	}
	if g.Type.Kind == "named" && g.Type.Pkg == "" && g.Type.Name == "seqbytes" {
		e.seqSetupInt()
		k := key + "|0"
		e.regHeap(k, "SeqInt", g.Name, "G", nil)
		return &SV{V: &Val{L: []string{e.heapGet(env.state(), k)}}, T: seqIntType}
	}
	if g.Type.Kind == "map" {
		kt, vt := e.resolveType(g.Type.Key, g.Pkg), e.resolveType(g.Type.Elem, g.Pkg)
		if kt == nil || vt == nil {
			env.errorf("cannot resolve ghost type %s", g.Type)
			return nil
		}
		ks := e.fl.leaves(kt)[0].Sort
		vl := e.fl.leaves(vt)
		var leaves []string
		for i, l := range vl {
			k := fmt.Sprintf("%s|%d", key, i)
			e.regHeap(k, arrSort(ks, l.Sort), g.Name+"_"+leafSuffix(l), "G", l.T)
			leaves = append(leaves, e.heapGet(env.state(), k))
		}
		return &SV{V: &Val{L: leaves}, GK: kt, GV: vt}
	}
	t := e.resolveType(g.Type, g.Pkg)
	if t == nil {
		env.errorf("cannot resolve ghost type %s", g.Type)
		return nil
	}
	var leaves []string
	for i, l := range e.fl.leaves(t) {
		k := fmt.Sprintf("%s|%d", key, i)
		e.regHeap(k, l.Sort, g.Name+"_"+leafSuffix(l), "G", l.T)
		leaves = append(leaves, e.heapGet(env.state(), k))
	}
	sv := &SV{V: &Val{L: leaves}, T: t}
	if isInteger(t) {
		sv.Math = false
	}
	return sv
}

func (e *Engine) ghostKeys(name string) []string {
	g := e.w.spec.Ghosts[name]
	if g == nil {
		return nil
	}
	env := &SpecEnv{e: e, st: &State{heap: map[string]string{}, pc: "true"}, vars: map[string]*SV{}, pkg: g.Pkg}
	sv := env.ghostValue(g)
	if sv == nil {
		return nil
	}
	var out []string
	for i := range sv.V.L {
		out = append(out, fmt.Sprintf("G|%s|%d", name, i))
	}
	return out
}

func isBoolT(t types.Type) bool {
	if t == nil {
		return false
	}
	b, ok := t.Underlying().(*types.Basic)
	return ok && b.Info()&types.IsBoolean != 0
}

func (env *SpecEnv) evalBin(x *SExpr) *SV {
	op := x.Name
	switch op {
	case "&&", "||", "==>", "<==>":
		a, b := env.eval(x.Args[0]), env.eval(x.Args[1])
		if a == nil || b == nil || len(a.V.L) != 1 || len(b.V.L) != 1 {
			env.errorf("bad operands of %s in %q", op, x.Src)
			return boolSV("false")
		}
		switch op {
		case "&&":
			return boolSV(and(a.V.L[0], b.V.L[0]))
		case "||":
			return boolSV(or(a.V.L[0], b.V.L[0]))
		case "==>":
			return boolSV(implies(a.V.L[0], b.V.L[0]))
		default:
			return boolSV(eq(a.V.L[0], b.V.L[0]))
		}
	case "in":
		k, m := env.eval(x.Args[0]), env.eval(x.Args[1])
		if k == nil || m == nil {
			return boolSV("false")
		}
		if m.GK != nil {
			return boolSV(sel(m.V.L[0], k.V.L[0]))
		}
		mt, ok := m.T.Underlying().(*types.Map)
		if !ok {
			env.errorf("'in' on non-map in %q", x.Src)
			return boolSV("false")
		}
		return boolSV(sel(env.e.mapDom(env.state(), mt, m.V.L[0]), k.V.L[0]))
	}
	a, b := env.eval(x.Args[0]), env.eval(x.Args[1])
	if a == nil || b == nil {
		return boolSV("false")
	}
	switch op {
	case "==", "!=":
		al, bl := a.V.L, b.V.L
		var cs []string
		if a.T != nil && isFloat(a.T) {
			cs = append(cs, "(fp.eq "+al[0]+" "+bl[0]+")")
		} else if len(al) != len(bl) {
			// nil against slice / struct
			if len(bl) == 1 && bl[0] == "0" && len(al) > 0 {
				cs = append(cs, eq(al[0], "0"))
			} else if len(al) == 1 && al[0] == "0" && len(bl) > 0 {
				cs = append(cs, eq(bl[0], "0"))
			} else {
				env.errorf("comparison of values with different shapes in %q", x.Src)
				return boolSV("false")
			}
		} else {
			for i := range al {
				cs = append(cs, eq(al[i], bl[i]))
			}
		}
		r := and(cs...)
		if op == "!=" {
			r = not(r)
		}
		return boolSV(r)
	case "<", "<=", ">", ">=":
		if a.T != nil && isFloat(a.T) {
			fop := map[string]string{"<": "fp.lt", "<=": "fp.leq", ">": "fp.gt", ">=": "fp.geq"}[op]
			return boolSV("(" + fop + " " + a.V.L[0] + " " + b.V.L[0] + ")")
		}
		return boolSV("(" + op + " " + a.V.L[0] + " " + b.V.L[0] + ")")
	case "+", "-", "*":
		if a.T != nil && isString(a.T) && op == "+" {
			if env.e.c.strTheory {
				return &SV{V: scalar("(str.++ " + a.V.L[0] + " " + b.V.L[0] + ")"), T: tString}
			}
			f := env.e.c.fun("strconcat", []Sort{SStr, SStr}, SStr)
			return &SV{V: scalar(app(f, a.V.L[0], b.V.L[0])), T: tString}
		}
		if a.T != nil && isFloat(a.T) {
			fop := map[string]string{"+": "fp.add", "-": "fp.sub", "*": "fp.mul"}[op]
			return &SV{V: scalar("(" + fop + " RNE " + a.V.L[0] + " " + b.V.L[0] + ")"), T: a.T}
		}
		return mathSV("(" + op + " " + a.V.L[0] + " " + b.V.L[0] + ")")
	case "/":
		return mathSV("(div " + a.V.L[0] + " " + b.V.L[0] + ")")
	case "%":
		return mathSV("(mod " + a.V.L[0] + " " + b.V.L[0] + ")")
	}
	env.errorf("unknown operator %s", op)
	return nil
}

// lookupField finds field `name` in struct type st, following embedded fields; returns leaf range and type.
func (e *Engine) lookupField(t types.Type, name string) (lo, hi int, ft types.Type, path string, ok bool) {
	su, isS := t.Underlying().(*types.Struct)
	if !isS {
		return
	}
	off := 0
	for i := 0; i < su.NumFields(); i++ {
		f := su.Field(i)
		n := len(e.fl.leaves(f.Type()))
		if f.Name() == name {
			return off, off + n, f.Type(), name, true
		}
		off += n
	}
	// embedded (value embedded only; pointer-embedded handled by caller)
	off = 0
	for i := 0; i < su.NumFields(); i++ {
		f := su.Field(i)
		n := len(e.fl.leaves(f.Type()))
		if f.Embedded() {
			if _, isStruct := f.Type().Underlying().(*types.Struct); isStruct {
				if l2, h2, ft2, p2, ok2 := e.lookupField(f.Type(), name); ok2 {
					return off + l2, off + h2, ft2, f.Name() + "." + p2, true
				}
			}
		}
		off += n
	}
	return
}

func (env *SpecEnv) evalSel(x *SExpr) *SV {
	e := env.e
	// package-qualified identifier (pkg.Name)
	if id := x.Args[0]; id.Op == "id" {
		if _, isVar := env.vars[id.Name]; !isVar {
			if tp := env.importedPkg(id.Name); tp != nil && env.localVarQuick(id.Name) == nil {
				if obj := tp.Scope().Lookup(x.Name); obj != nil {
					switch o := obj.(type) {
					case *types.Const:
						return env.constSV(o)
					case *types.Var:
						// extern package variable: uninterpreted constant
						t := o.Type()
						v := &Val{}
						for i, l := range e.fl.leaves(t) {
							v.L = append(v.L, e.c.constant(fmt.Sprintf("G_%s_%s_%d", tp.Name(), x.Name, i), l.Sort))
						}
						if sp := e.w.ssaPkg(tp.Path()); sp != nil {
							if g, ok := sp.Members[x.Name].(*ssa.Global); ok {
								loc := &Loc{Kind: LGlobal, G: g, Root: t, T: t, Lo: 0, Hi: len(e.fl.leaves(t)), Path: x.Name}
								v = &Val{L: e.loadLoc(env.state(), loc)}
							}
						}
						return &SV{V: v, T: t}
					}
				}
			}
		}
	}
	a := env.eval(x.Args[0])
	if a == nil {
		return nil
	}
	if a.T == nil {
		env.errorf("field %s of untyped value in %q", x.Name, x.Src)
		return nil
	}
	st := env.state()
	// ghost field: $name on any value -> ghost map indexed by the value
	if strings.HasPrefix(x.Name, "$") {
		g, ok := e.w.spec.Ghosts[x.Name]
		if !ok {
			env.errorf("unknown ghost field %s", x.Name)
			return nil
		}
		gm := env.ghostValue(g)
		if gm == nil || gm.GK == nil {
			env.errorf("ghost field %s must be declared as a map", x.Name)
			return nil
		}
		v := &Val{}
		for _, l := range gm.V.L {
			v.L = append(v.L, sel(l, a.V.L[0]))
		}
		return &SV{V: v, T: gm.GV}
	}
	t := a.T
	if pt, ok := t.Underlying().(*types.Pointer); ok {
		stT := pt.Elem()
		lo, hi, ft, path, ok := e.lookupField(stT, x.Name)
		if !ok {
			// pointer-embedded promotion
			if su, isS := stT.Underlying().(*types.Struct); isS {
				for i := 0; i < su.NumFields(); i++ {
					f := su.Field(i)
					if f.Embedded() {
						if _, isPtr := f.Type().Underlying().(*types.Pointer); isPtr {
							inner := env.evalSel(&SExpr{Op: "sel", Name: f.Name(), Args: x.Args, Src: x.Src})
							if inner != nil {
								if l2, _, _, _, ok2 := e.lookupField(f.Type().Underlying().(*types.Pointer).Elem(), x.Name); ok2 || l2 >= 0 {
									if ok2 {
										return env.with("$tmp", inner).evalSel(&SExpr{Op: "sel", Name: x.Name, Args: []*SExpr{{Op: "id", Name: "$tmp"}}, Src: x.Src})
									}
								}
							}
						}
					}
				}
			}
			env.errorf("no field %s in %s (%q)", x.Name, stT, x.Src)
			return nil
		}
		var loc *Loc
		if a.V.Loc != nil && a.V.Loc.Kind != LCell {
			nl := *a.V.Loc
			nl.Lo, nl.Hi = a.V.Loc.Lo+lo, a.V.Loc.Lo+hi
			nl.T = ft
			loc = &nl
		} else {
			loc = &Loc{Kind: LField, Ref: a.V.L[0], S: stT, Root: stT, T: ft, Lo: lo, Hi: hi, Path: path}
		}
		if isLockType(ft) {
			return &SV{V: &Val{Loc: loc}, T: ft}
		}
		lv := e.loadLoc(st, loc)
		if _, isSlice := ft.Underlying().(*types.Slice); isSlice && len(lv) == 3 && loc.Kind == LField {
			tmpfx := env.fx
			if tmpfx == nil {
				tmpfx = &FnExec{e: e}
			}
			if tmpfx.fieldClass(loc) == "immutable" {
				e.immArr[lv[0]] = true
			}
		}
		return &SV{V: &Val{L: lv}, T: ft}
	}
	if _, ok := t.Underlying().(*types.Struct); ok {
		lo, hi, ft, _, ok := e.lookupField(t, x.Name)
		if !ok || hi > len(a.V.L) {
			env.errorf("no field %s in struct value %s", x.Name, t)
			return nil
		}
		return &SV{V: &Val{L: a.V.L[lo:hi]}, T: ft}
	}
	env.errorf("selector %s on %s in %q", x.Name, t, x.Src)
	return nil
}

func (env *SpecEnv) localVarQuick(name string) *ssa.Alloc {
	if env.fx == nil || env.fx.fn == nil {
		return nil
	}
	for _, b := range env.fx.fn.Blocks {
		for _, in := range b.Instrs {
			if a, ok := in.(*ssa.Alloc); ok && a.Comment == name {
				return a
			}
		}
	}
	return nil
}

func (env *SpecEnv) importedPkg(alias string) *types.Package {
	e := env.e
	if m := e.w.spec.Imports[env.pkg]; m != nil {
		if path, ok := m[alias]; ok {
			return e.w.typesPkg(path)
		}
	}
	if p := e.w.typesPkg(env.pkg); p != nil {
		for _, imp := range p.Imports() {
			if imp.Name() == alias {
				return imp
			}
		}
	}
	return nil
}

func (env *SpecEnv) evalIdx(x *SExpr) *SV {
	e := env.e
	a, i := env.eval(x.Args[0]), env.eval(x.Args[1])
	if a == nil || i == nil {
		return nil
	}
	st := env.state()
	if a.GK != nil {
		v := &Val{}
		for _, l := range a.V.L {
			v.L = append(v.L, sel(l, i.V.L[0]))
		}
		return &SV{V: v, T: a.GV}
	}
	switch t := a.T.Underlying().(type) {
	case *types.Map:
		mref := a.V.L[0]
		_, vl := e.mapSorts(t)
		dom := e.mapDom(st, t, mref)
		zero := e.fl.zero(e.c, t.Elem())
		v := &Val{}
		for j := range vl {
			raw := sel(sel(e.heapGet(st, e.keyMapVal(t, j)), mref), i.V.L[0])
			v.L = append(v.L, ite(sel(dom, i.V.L[0]), raw, zero[j]))
		}
		return &SV{V: v, T: t.Elem()}
	case *types.Slice:
		arr, off := a.V.L[0], a.V.L[1]
		pos := i.V.L[0]
		if off != "0" {
			pos = "(+ " + off + " " + pos + ")"
		}
		v := &Val{}
		for j := range e.fl.leaves(t.Elem()) {
			v.L = append(v.L, sel(sel(e.heapGet(st, e.keyElemOf(t.Elem(), j, arr)), arr), pos))
		}
		return &SV{V: v, T: t.Elem()}
	}
	env.errorf("index on %s in %q", a.T, x.Src)
	return nil
}

func (env *SpecEnv) evalQuant(x *SExpr) *SV {
	e := env.e
	n := env
	var binds []string
	var guards []string
	for _, b := range x.Binders {
		t := e.resolveType(b.Type, env.pkg)
		if t == nil {
			if b.Type.Name == "int" || b.Type.Name == "Int" {
				t = tMath
			} else {
				env.errorf("cannot resolve type %s of bound variable %s", b.Type, b.Name)
				return boolSV("false")
			}
		}
		ls := e.fl.leaves(t)
		if t == tMath {
			ls = []Leaf{{Sort: SInt, T: t}}
		}
		if len(ls) != 1 {
			env.errorf("bound variable %s must be scalar", b.Name)
			return boolSV("false")
		}
		e.nq++
		vn := fmt.Sprintf("%s!b%d", smtName(b.Name), e.nq)
		binds = append(binds, fmt.Sprintf("(%s %s)", vn, ls[0].Sort))
		sv := &SV{V: scalar(vn), T: t}
		if t == tMath {
			sv.Math = true
		} else if lo, hi, ok := intRange(t); ok {
			guards = append(guards, "(<= "+lo+" "+vn+")", "(<= "+vn+" "+hi+")")
		}
		n = n.with(b.Name, sv)
	}
	e.c.inQuant++
	defer func() { e.c.inQuant-- }()
	body := n.eval(x.Args[0])
	if body == nil || len(body.V.L) != 1 {
		return boolSV("false")
	}
	bt := body.V.L[0]
	var pats string
	for _, trig := range x.Trig {
		var ts []string
		for _, t := range trig {
			tv := n.eval(t)
			if tv != nil && len(tv.V.L) > 0 {
				ts = append(ts, tv.V.L[0])
			}
		}
		if len(ts) > 0 {
			pats += " :pattern (" + strings.Join(ts, " ") + ")"
		}
	}
	q := x.Op
	if len(guards) > 0 {
		if q == "forall" {
			bt = implies(and(guards...), bt)
		} else {
			bt = and(append(guards, bt)...)
		}
	}
	if pats != "" {
		bt = "(! " + bt + pats + ")"
	}
	return boolSV(fmt.Sprintf("(%s (%s) %s)", q, strings.Join(binds, " "), bt))
}

func (env *SpecEnv) evalCall(x *SExpr) *SV {
	e := env.e
	fnx := x.Args[0]
	args := x.Args[1:]
	if fnx.Op == "id" {
		switch fnx.Name {
		case "entry":
			// entry(e): e in the state in which the function was entered (old() of a function that takes a lock refers
			// to the state at its first acquire instead)
			if env.fx == nil || env.fx.old == nil {
				return env.eval(args[0])
			}
			{
				n := *env
				n.old = env.fx.old
				n.inOld = true
				return n.eval(args[0])
			}
		case "old":
			if env.old == nil {
				return env.eval(args[0])
			}
			n := *env
			n.inOld = true
			return n.eval(args[0])
		case "len":
			a := env.eval(args[0])
			if a == nil {
				return mathSV("0")
			}
			switch t := a.T.Underlying().(type) {
			case *types.Slice:
				return mathSV(a.V.L[2])
			case *types.Map:
				hs := env.state()
				if hs == env.st {
					return mathSV(e.mapLenFacts(env.st, t, a.V.L[0]))
				}
				// length in the old state: facts go to the current path condition
				tmp := &State{pc: "true", heap: hs.heap, locals: hs.locals, regs: hs.regs}
				ln := e.mapLenFacts(tmp, t, a.V.L[0])
				e.assume(env.st, tmp.pc)
				return mathSV(ln)
			case *types.Basic:
				if env.fx != nil {
					return mathSV(env.fx.strLen(a.V.L[0]))
				}
			}
			env.errorf("len of %s", a.T)
			return mathSV("0")
		case "upd":
			m, k, v := env.eval(args[0]), env.eval(args[1]), env.eval(args[2])
			if m == nil || k == nil || v == nil || m.GK == nil {
				env.errorf("upd needs a ghost map")
				return nil
			}
			out := &Val{}
			for i := range m.V.L {
				out.L = append(out.L, store(m.V.L[i], k.V.L[0], v.V.L[i]))
			}
			return &SV{V: out, GK: m.GK, GV: m.GV}
		case "seq":
			// the abstract sequence of a []string
			a := env.eval(args[0])
			if a == nil || len(a.V.L) != 3 {
				env.errorf("seq() needs a slice")
				return nil
			}
			sl, ok := a.T.Underlying().(*types.Slice)
			if !ok {
				env.errorf("seq() needs a slice")
				return nil
			}
			row := sel(e.heapGet(env.state(), e.keyElemOf(sl.Elem(), 0, a.V.L[0])), a.V.L[0])
			if isInteger(sl.Elem()) {
				e.seqSetupInt()
				return &SV{V: scalar(app("seqofI", row, a.V.L[1], a.V.L[2])), T: seqIntType}
			}
			e.seqSetup()
			return &SV{V: scalar(app("seqof", row, a.V.L[1], a.V.L[2])), T: seqType}
		case "cat":
			a, b := env.eval(args[0]), env.eval(args[1])
			if a == nil || b == nil {
				return nil
			}
			if a.T == seqIntType {
				return &SV{V: scalar(app("seqI_cat", a.V.L[0], b.V.L[0])), T: seqIntType}
			}
			return &SV{V: scalar(app("seq_cat", a.V.L[0], b.V.L[0])), T: seqType}
		case "deref":
			a := env.eval(args[0])
			if a == nil || a.T == nil {
				return nil
			}
			pt, ok := a.T.Underlying().(*types.Pointer)
			if !ok {
				env.errorf("deref() needs a pointer")
				return nil
			}
			fx := env.fx
			if fx == nil {
				fx = &FnExec{e: e}
			}
			loc := fx.ptrLocNoCheck(a.V, a.T)
			return &SV{V: &Val{L: e.loadLoc(env.state(), loc)}, T: pt.Elem()}
		case "tofloat":
			a := env.eval(args[0])
			if a == nil {
				return nil
			}
			return &SV{V: scalar(app(e.fpConvFuns(), a.V.L[0])), T: types.Typ[types.Float64]}
		case "same":
			// same(a, b): identical values (SMT equality; for floats NaN is the same as NaN, unlike ==)
			a, b := env.eval(args[0]), env.eval(args[1])
			if a == nil || b == nil || len(a.V.L) != len(b.V.L) {
				env.errorf("same() needs two values of one type")
				return boolSV("false")
			}
			var cs []string
			for i := range a.V.L {
				cs = append(cs, eq(a.V.L[i], b.V.L[i]))
			}
			return boolSV(and(cs...))
		case "toint":
			// toint(x): the int64 a Go conversion of the float64 x yields (unconstrained when x is out of range)
			a := env.eval(args[0])
			if a == nil {
				return nil
			}
			e.fpConvFuns()
			return mathSV(app("f2i64", a.V.L[0]))
		case "isnan":
			a := env.eval(args[0])
			return boolSV("(fp.isNaN " + a.V.L[0] + ")")
		case "emptybytes":
			e.seqSetupInt()
			return &SV{V: scalar("seqI_empty"), T: seqIntType}
		case "bytes1":
			a := env.eval(args[0])
			e.seqSetupInt()
			return &SV{V: scalar(app("seqI_single", a.V.L[0])), T: seqIntType}
		case "slen":
			a := env.eval(args[0])
			e.seqSetupInt()
			return mathSV(app("seqI_len", a.V.L[0]))
		case "hasprefix", "contains", "hassuffix":
			a, b := env.eval(args[0]), env.eval(args[1])
			if a == nil || b == nil {
				return boolSV("false")
			}
			if e.c.strTheory {
				op := map[string]string{"hasprefix": "str.prefixof", "hassuffix": "str.suffixof", "contains": "str.contains"}[fnx.Name]
				if fnx.Name == "contains" {
					return boolSV("(" + op + " " + a.V.L[0] + " " + b.V.L[0] + ")")
				}
				return boolSV("(" + op + " " + b.V.L[0] + " " + a.V.L[0] + ")")
			}
			f := e.c.fun("str_"+fnx.Name, []Sort{SStr, SStr}, SBool)
			return boolSV(app(f, a.V.L[0], b.V.L[0]))
		case "trimprefix":
			a, b := env.eval(args[0]), env.eval(args[1])
			if a == nil || b == nil {
				return nil
			}
			if e.c.strTheory {
				s0, p0 := a.V.L[0], b.V.L[0]
				return &SV{V: scalar(fmt.Sprintf("(ite (str.prefixof %s %s) (str.substr %s (str.len %s) (- (str.len %s) (str.len %s))) %s)", p0, s0, s0, p0, s0, p0, s0)), T: tString}
			}
			f := e.c.fun("str_trimprefix", []Sort{SStr, SStr}, SStr)
			return &SV{V: scalar(app(f, a.V.L[0], b.V.L[0])), T: tString}
		case "inre":
			// inre(s, "<go regexp literal>"): membership in the regular language of a constant Go regexp
			a := env.eval(args[0])
			if a == nil || args[1].Op != "str" || !e.c.strTheory {
				env.errorf("inre needs string theory and a literal pattern")
				return boolSV("false")
			}
			rl, err := goRegexToRegLan(args[1].Name)
			if err != nil {
				env.errorf("inre: %v", err)
				return boolSV("false")
			}
			return boolSV("(str.in_re " + a.V.L[0] + " " + rl + ")")
		case "sliceoff":
			a := env.eval(args[0])
			if a == nil || len(a.V.L) != 3 {
				env.errorf("sliceoff() needs a slice")
				return mathSV("0")
			}
			return mathSV(a.V.L[1])
		case "b2i":
			a := env.eval(args[0])
			return mathSV(ite(a.V.L[0], "1", "0"))
		case "ite":
			c, a, b := env.eval(args[0]), env.eval(args[1]), env.eval(args[2])
			if c == nil || a == nil || b == nil {
				return nil
			}
			out := &Val{}
			for i := range a.V.L {
				out.L = append(out.L, ite(c.V.L[0], a.V.L[i], b.V.L[i]))
			}
			return &SV{V: out, T: a.T, GK: a.GK, GV: a.GV, Math: a.Math}
		case "min", "max":
			a, b := env.eval(args[0]), env.eval(args[1])
			op := "<="
			if fnx.Name == "max" {
				op = ">="
			}
			return mathSV(ite("("+op+" "+a.V.L[0]+" "+b.V.L[0]+")", a.V.L[0], b.V.L[0]))
		case "$call":
			// $call("name#n"): the value returned by the n-th call of name made directly by this function
			if len(args) != 1 || args[0].Op != "str" {
				env.errorf("$call needs a string literal \"callee#n\"")
				return mathSV("0")
			}
			if env.fx == nil {
				env.errorf("$call used outside the body of the contract's owner")
				return mathSV("0")
			}
			top := env.fx.topFx()
			rt := top.callResT[args[0].Name]
			if rt == nil {
				env.errorf("$call(%q): this function has no such call site", args[0].Name)
				return mathSV("0")
			}
			var ls []string
			for i := range e.fl.leaves(rt) {
				ls = append(ls, e.heapGet(env.state(), fmt.Sprintf("G|$call:%s|%d", args[0].Name, i)))
			}
			return &SV{V: &Val{L: ls}, T: rt}
		case "$idx":
			// $idx(n): the range index of the function's n-th loop (for invariants of loops nested in it)
			if len(args) == 1 && args[0].Op == "num" && env.fx != nil {
				for _, l := range env.fx.loopList {
					if fmt.Sprint(l.ord) == args[0].Name && l.idxAlloc != nil {
						if cur, ok := env.state().locals[l.idxAlloc]; ok {
							return mathSV(cur[0])
						}
						return mathSV("(- 1)")
					}
				}
			}
			env.errorf("$idx(n) needs the ordinal of a slice-range loop")
			return mathSV("0")
		case "$ranged":
			// $ranged(n): the slice that the function's n-th loop ranges over (evaluated once, before the loop), so
			// that an invariant need not name a temporary that holds it
			if len(args) == 1 && args[0].Op == "num" && env.fx != nil {
				for _, l := range env.fx.loopList {
					if fmt.Sprint(l.ord) != args[0].Name || l.idxAlloc == nil {
						continue
					}
					if x := rangedValue(l); x != nil {
						if v, ok := env.state().regs[x]; ok && v != nil {
							return &SV{V: v, T: x.Type()}
						}
					}
				}
			}
			env.errorf("$ranged(n) needs the ordinal of a slice-range loop that has been reached")
			return nil
		case "selected":
			k := "G|$selected|0"
			e.regHeap(k, SInt, "selected", "G", nil)
			return &SV{V: scalar(e.heapGet(env.state(), k)), T: nil, Math: true}
		case "closed":
			a := env.eval(args[0])
			return boolSV(sel(e.heapGet(env.state(), e.keyChanClosed()), a.V.L[0]))
		case "held", "wheld", "rheld":
			a := env.eval(args[0])
			if a == nil || a.V.Loc == nil {
				env.errorf("held() needs a lock field")
				return boolSV("false")
			}
			k := e.keyLock(a.V.Loc.S, a.V.Loc.Path)
			cur := sel(e.heapGet(env.state(), k), a.V.Loc.Ref)
			switch fnx.Name {
			case "wheld":
				return boolSV(eq(cur, "1"))
			case "rheld":
				return boolSV(eq(cur, "2"))
			}
			return boolSV(not(eq(cur, "0")))
		case "isa":
			a := env.eval(args[0])
			if a == nil || a.T == nil {
				return boolSV("false")
			}
			pt, ok := a.T.Underlying().(*types.Pointer)
			if !ok {
				env.errorf("isa() needs a pointer")
				return boolSV("false")
			}
			k := e.keyIsA(pt.Elem())
			if k == "" {
				env.errorf("isa(): type %s is not declared `tracked`", pt.Elem())
				return boolSV("false")
			}
			return boolSV(sel(e.heapGet(env.state(), k), a.V.L[0]))
		case "mine":
			a := env.eval(args[0])
			if a != nil && a.T != nil && len(a.V.L) == 3 {
				if _, isSlice := a.T.Underlying().(*types.Slice); isSlice {
					// a slice: its backing array is private to this activation (or there is none: a nil or empty
					// literal has no capacity, so whatever is appended to it is newly allocated)
					return boolSV(or(sel(e.heapGet(env.state(), e.keyMine()), a.V.L[0]), eq(a.V.L[0], "0")))
				}
			}
			if a == nil || len(a.V.L) != 1 {
				return boolSV("false")
			}
			return boolSV(sel(e.heapGet(env.state(), e.keyMine()), a.V.L[0]))
		case "lockinv":
			a := env.eval(args[0])
			if a == nil || a.V.Loc == nil {
				env.errorf("lockinv() needs a lock field")
				return boolSV("false")
			}
			class := lockClassOf(a.V.Loc)
			only := map[string]bool{}
			for _, x := range args[1:] {
				if x.Op == "str" {
					only[x.Name] = true
				}
			}
			var cs []string
			for _, li := range e.w.spec.LockInvs[class] {
				if len(only) > 0 && !only[li.Name] {
					continue
				}
				g := e.evalClauseOn(li.Clause, env.state(), env.old, a.V.Loc.Ref, env.fx)
				if fl := e.envGuardFor(li.Clause.Tags); fl != "" {
					g = "(=> " + fl + " " + g + ")"
				}
				cs = append(cs, g)
			}
			return boolSV(and(cs...))
		case "typeis":
			// typeis(x, T)
			a := env.eval(args[0])
			p := &sparser{toks: lexSpec(args[1].Src)}
			_ = p
			te := sexprToType(args[1])
			t := e.resolveType(te, env.pkg)
			if a == nil || t == nil {
				env.errorf("typeis: cannot resolve %v", te)
				return boolSV("false")
			}
			tof := e.c.fun("typeof", []Sort{SInt}, SInt)
			fx := env.fx
			if fx == nil {
				fx = &FnExec{e: e}
			}
			return boolSV(and(not(eq(a.V.L[0], "0")), eq(app(tof, a.V.L[0]), fx.typeTag(t))))
		case "iface":
			// iface(x): the interface value boxing concrete value x
			a := env.eval(args[0])
			fx := env.fx
			if fx == nil {
				fx = &FnExec{e: e}
			}
			v := fx.makeIface(env.st, a.V, a.T)
			return &SV{V: v, T: types.NewInterfaceType(nil, nil)}
		case "$visited":
			lp := env.loop
			if len(args) == 2 && args[1].Op == "num" && env.fx != nil {
				// $visited(k, n): the visited set of the function's n-th loop (for invariants of loops nested in it and
				// for clauses after it)
				lp = nil
				for _, l := range env.fx.loopList {
					if fmt.Sprint(l.ord) == args[1].Name {
						lp = l
					}
				}
			}
			if lp == nil || lp.rng == nil {
				env.errorf("$visited outside a map-range loop")
				return boolSV("false")
			}
			k := env.eval(args[0])
			m := lp.rng.X.Type().Underlying().(*types.Map)
			ks, _ := e.mapSorts(m)
			key := env.fx.iterKey(lp.rng, ks)
			return boolSV(sel(e.heapGet(env.state(), key), k.V.L[0]))
		case "count":
			// count(m, v): number of keys mapped to v in map m (uninterpreted + lemmas)
			m, v := env.eval(args[0]), env.eval(args[1])
			mt, ok := m.T.Underlying().(*types.Map)
			if !ok {
				env.errorf("count on non-map")
				return mathSV("0")
			}
			return mathSV(e.countTerm(env.state(), mt, m.V.L[0], v.V.L[0]))
		case "fresh":
			a := env.eval(args[0])
			if env.old == nil {
				return boolSV("true")
			}
			return boolSV("(> " + a.V.L[0] + " " + e.heapGet(env.old, e.keyAlloc()) + ")")
		case "int":
			a := env.eval(args[0])
			return mathSV(a.V.L[0])
		case "wrap32u":
			a := env.eval(args[0])
			return mathSV("(mod " + a.V.L[0] + " 4294967296)")
		case "wrap32s":
			a := env.eval(args[0])
			return mathSV(wrapMod(a.V.L[0], types.Typ[types.Int32]))
		case "wrap64s":
			a := env.eval(args[0])
			return mathSV(wrapMod(a.V.L[0], types.Typ[types.Int64]))
		case "pow2":
			a := env.eval(args[0])
			fx := env.fx
			if fx == nil {
				fx = &FnExec{e: e}
			}
			return mathSV("(" + fx.pow2Fun() + " " + a.V.L[0] + ")")
		}
		// uninterpreted spec function
		if uf, ok := e.w.spec.UFs[fnx.Name]; ok {
			var sorts []Sort
			var terms []string
			for i, at := range uf.Args {
				t := e.resolveType(at, uf.Pkg)
				if sl, isSlice := t.(*types.Slice); t != nil && isSlice {
					// a slice argument is passed as (contents row, offset, length)
					es := e.fl.leaves(sl.Elem())[0].Sort
					sorts = append(sorts, arrSort(SInt, es), SInt, SInt)
					if i < len(args) {
						av := env.eval(args[i])
						if av == nil || len(av.V.L) != 3 {
							return nil
						}
						row := sel(e.heapGet(env.state(), e.keyElemOf(sl.Elem(), 0, av.V.L[0])), av.V.L[0])
						terms = append(terms, row, av.V.L[1], av.V.L[2])
					}
					continue
				}
				so := SInt
				if t != nil {
					so = e.fl.leaves(t)[0].Sort
				} else if at.Name == "seqbytes" {
					e.seqSetupInt()
					so = "SeqInt"
				} else if at.Name == "seq" {
					e.seqSetup()
					so = "SeqStr"
				}
				sorts = append(sorts, so)
				if i < len(args) {
					av := env.eval(args[i])
					if av == nil {
						return nil
					}
					terms = append(terms, av.V.L[0])
				}
			}
			rt := e.resolveType(uf.Res, uf.Pkg)
			rs := SInt
			var rT types.Type = tMath
			if uf.Res.Name == "seq" && uf.Res.Pkg == "" {
				e.seqSetup()
				f := e.c.fun("uf_"+uf.Name, sorts, "SeqStr")
				e.includeRawAxioms()
				return &SV{V: scalar(app(f, terms...)), T: seqType}
			}
			if uf.Res.Name == "seqbytes" && uf.Res.Pkg == "" {
				e.seqSetupInt()
				f := e.c.fun("uf_"+uf.Name, sorts, "SeqInt")
				e.includeRawAxioms()
				return &SV{V: scalar(app(f, terms...)), T: seqIntType}
			}
			if rt != nil && !(uf.Res.Name == "int" && uf.Res.Pkg == "") {
				rs = e.fl.leaves(rt)[0].Sort
				rT = rt
			}
			f := e.c.fun("uf_"+uf.Name, sorts, rs)
			e.includeRawAxioms()
			sv := &SV{V: scalar(app(f, terms...)), T: rT}
			if rT == tMath {
				sv.Math = true
			}
			return sv
		}
		// predicate
		if pd, ok := e.w.spec.Preds[fnx.Name]; ok {
			if len(args) != len(pd.Params) {
				env.errorf("pred %s: wrong number of arguments", pd.Name)
				return boolSV("false")
			}
			n := &SpecEnv{fx: env.fx, e: e, st: env.st, old: env.old, vars: map[string]*SV{}, loop: env.loop, pkg: pd.Pkg, inOld: env.inOld}
			for i, p := range pd.Params {
				av := env.eval(args[i])
				if av == nil {
					return boolSV("false")
				}
				if av.T == nil || av.T == types.Typ[types.UntypedNil] {
					if t := e.resolveType(p.Type, pd.Pkg); t != nil {
						av = &SV{V: av.V, T: t, GK: av.GK, GV: av.GV}
					}
				}
				n.vars[p.Name] = av
			}
			// ghost/forall-bound outer variables are not visible inside preds (hygiene)
			return n.eval(pd.Body)
		}
		// uninterpreted spec function declared as ghost function? fallthrough to in-repo function
		if sp := e.w.ssaPkg(env.pkg); sp != nil {
			if f, ok := sp.Members[fnx.Name].(*ssa.Function); ok {
				return env.pureCall(f, nil, args)
			}
		}
		env.errorf("unknown function %s in spec", fnx.Name)
		return nil
	}
	if fnx.Op == "sel" {
		// method call: recv.Method(args) -> pure inlined call
		recv := env.eval(fnx.Args[0])
		if recv == nil || recv.T == nil {
			return nil
		}
		ms := e.w.prog.MethodSets.MethodSet(recv.T)
		for i := 0; i < ms.Len(); i++ {
			s := ms.At(i)
			if s.Obj().Name() == fnx.Name {
				f := e.w.prog.MethodValue(s)
				if f != nil && len(f.Blocks) > 0 {
					// promoted through embedded pointer: the synthetic wrapper is executable too
					return env.pureCall(f, recv, args)
				}
			}
		}
		env.errorf("unknown or external method %s on %s in spec", fnx.Name, recv.T)
		return nil
	}
	env.errorf("unsupported call in spec %q", x.Src)
	return nil
}

func sexprToType(x *SExpr) *STypeExpr {
	switch x.Op {
	case "id":
		return &STypeExpr{Kind: "named", Name: x.Name}
	case "sel":
		if x.Args[0].Op == "id" {
			return &STypeExpr{Kind: "named", Pkg: x.Args[0].Name, Name: x.Name}
		}
	case "un":
		// not used
	}
	return &STypeExpr{Kind: "named", Name: "?"}
}

// pureCall inlines a side-effect-free in-repo function in a spec expression.
func (env *SpecEnv) pureCall(f *ssa.Function, recv *SV, args []*SExpr) *SV {
	e := env.e
	var vals []*Val
	if recv != nil {
		vals = append(vals, recv.V)
	}
	for _, a := range args {
		av := env.eval(a)
		if av == nil {
			return nil
		}
		vals = append(vals, av.V)
	}
	if len(vals) != len(f.Params) {
		env.errorf("pure call %s: wrong number of arguments", f.Name())
		return nil
	}
	st := env.state().clone()
	st.pc = "true"
	st.defers = nil
	e.suppress++
	e.depth++
	sub := &FnExec{e: e, fn: f, prefix: "spec"}
	out, rv := sub.run(st, vals, nil)
	e.depth--
	e.suppress--
	_ = out
	if rv == nil {
		env.errorf("pure call %s returned nothing", f.Name())
		return nil
	}
	res := f.Signature.Results()
	var rt types.Type = res
	if res.Len() == 1 {
		rt = res.At(0).Type()
	}
	return &SV{V: rv, T: rt}
}

// evalQuantIn: quantification over the elements of a slice (by absolute position, so that the pattern contains no
// arithmetic) or over the entries of a map.
func (env *SpecEnv) evalQuantIn(x *SExpr) *SV {
	e := env.e
	coll := env.eval(x.Args[0])
	if coll == nil || coll.T == nil {
		env.errorf("cannot evaluate collection in %q", x.Src)
		return boolSV("false")
	}
	st := env.state()
	if c := x.Args[0]; c.Op == "call" && c.Args[0].Op == "id" && c.Args[0].Name == "old" && env.old != nil {
		st = env.old // elements of the collection as it was in the old state
	}
	e.nq++
	kv := fmt.Sprintf("k!b%d", e.nq)
	q := "forall"
	if x.Op == "existsin" {
		q = "exists"
	}
	n := env
	var guard, pat string
	var ks Sort = SInt
	switch t := coll.T.Underlying().(type) {
	case *types.Slice:
		arr, off, ln := coll.V.L[0], coll.V.L[1], coll.V.L[2]
		elem := &Val{}
		for j := range e.fl.leaves(t.Elem()) {
			elem.L = append(elem.L, sel(sel(e.heapGet(st, e.keyElemOf(t.Elem(), j, arr)), arr), kv))
		}
		idx := kv
		if off != "0" {
			idx = "(- " + kv + " " + off + ")"
		}
		if len(x.Binders) == 2 {
			n = n.with(x.Binders[0].Name, mathSV(idx))
			n = n.with(x.Binders[1].Name, &SV{V: elem, T: t.Elem()})
		} else {
			n = n.with(x.Binders[0].Name, &SV{V: elem, T: t.Elem()})
		}
		hi := "(+ " + off + " " + ln + ")"
		if off == "0" {
			hi = ln
		}
		guard = and("(<= "+off+" "+kv+")", "(< "+kv+" "+hi+")")
		if len(elem.L) > 0 {
			pat = elem.L[0]
		}
	case *types.Map:
		ks, _ = e.mapSorts(t)
		mref := coll.V.L[0]
		dom := e.mapDom(st, t, mref)
		_, vl := e.mapSorts(t)
		val := &Val{}
		for j := range vl {
			val.L = append(val.L, sel(sel(e.heapGet(st, e.keyMapVal(t, j)), mref), kv))
		}
		n = n.with(x.Binders[0].Name, &SV{V: scalar(kv), T: t.Key()})
		if len(x.Binders) == 2 {
			n = n.with(x.Binders[1].Name, &SV{V: val, T: t.Elem()})
		}
		guard = sel(dom, kv)
		pat = guard
	default:
		env.errorf("quantification over %s is not supported (%q)", coll.T, x.Src)
		return boolSV("false")
	}
	e.c.inQuant++
	body := n.eval(x.Args[1])
	e.c.inQuant--
	if body == nil || len(body.V.L) != 1 {
		return boolSV("false")
	}
	bt := body.V.L[0]
	if q == "forall" {
		bt = implies(guard, bt)
	} else {
		bt = and(guard, bt)
	}
	if pat != "" {
		bt = "(! " + bt + " :pattern (" + pat + "))"
	}
	return boolSV(fmt.Sprintf("(%s ((%s %s)) %s)", q, kv, ks, bt))
}

type namedTerm struct {
	name string
	term string
	tags []string
}

// evalSplit evaluates a boolean spec expression into separately provable conjuncts
// (top-level && and lockinv(...) are split; the conjunction of the parts is the whole).
func (env *SpecEnv) evalSplit(x *SExpr) []namedTerm {
	if x.Op == "bin" && x.Name == "&&" {
		return append(env.evalSplit(x.Args[0]), env.evalSplit(x.Args[1])...)
	}
	if x.Op == "call" && x.Args[0].Op == "id" && x.Args[0].Name == "lockinv" && len(x.Args) >= 2 {
		e := env.e
		a := env.eval(x.Args[1])
		if a != nil && a.V.Loc != nil {
			class := lockClassOf(a.V.Loc)
			only := map[string]bool{}
			for _, y := range x.Args[2:] {
				if y.Op == "str" {
					only[y.Name] = true
				}
			}
			var out []namedTerm
			for _, li := range e.w.spec.LockInvs[class] {
				if len(only) > 0 && !only[li.Name] {
					continue
				}
				out = append(out, namedTerm{name: li.Name, term: e.evalClauseOn(li.Clause, env.state(), env.old, a.V.Loc.Ref, env.fx), tags: li.Clause.Tags})
			}
			return out
		}
	}
	sv := env.eval(x)
	if sv == nil || sv.V == nil || len(sv.V.L) != 1 {
		env.errorf("spec expression %q did not evaluate to a boolean", x.Src)
		return []namedTerm{{term: "false"}}
	}
	return []namedTerm{{term: sv.V.L[0]}}
}

func (fx *FnExec) evalSpecSplit(x *SExpr, st *State, old *State, loop *loopInfo) []namedTerm {
	return fx.specEnv(st, old, loop).evalSplit(x)
}

// seqSetup declares the abstract sequence sort of strings with its definitional axioms.
func (e *Engine) seqSetup() {
	c := e.c
	if _, ok := c.decls["seqof"]; ok {
		return
	}
	c.declareSort("SeqStr")
	str := e.fl.strSort()
	c.add(&decl{name: "seq_empty", sort: "SeqStr", deps: []string{"sort:SeqStr"}})
	c.fun("seq_single", []Sort{str}, "SeqStr")
	c.fun("seq_cat", []Sort{"SeqStr", "SeqStr"}, "SeqStr")
	c.fun("seqof", []Sort{arrSort(SInt, str), SInt, SInt}, "SeqStr")
	row := arrSort(SInt, str)
	c.axiom("seq:len0", fmt.Sprintf("(forall ((r!q %s) (o!q Int)) (! (= (seqof r!q o!q 0) seq_empty) :pattern ((seqof r!q o!q 0))))", row), "seqof")
	c.axiom("seq:len1", fmt.Sprintf("(forall ((r!q %s) (o!q Int)) (! (= (seqof r!q o!q 1) (seq_single (select r!q o!q))) :pattern ((seqof r!q o!q 1))))", row), "seqof")
	c.axiom("seq:unitl", "(forall ((s!q SeqStr)) (! (= (seq_cat seq_empty s!q) s!q) :pattern ((seq_cat seq_empty s!q))))", "seq_cat")
	c.axiom("seq:unitr", "(forall ((s!q SeqStr)) (! (= (seq_cat s!q seq_empty) s!q) :pattern ((seq_cat s!q seq_empty))))", "seq_cat")
}

// seqSetupInt: the same for sequences of integers (bytes).
func (e *Engine) seqSetupInt() {
	c := e.c
	if _, ok := c.decls["seqofI"]; ok {
		return
	}
	c.declareSort("SeqInt")
	c.add(&decl{name: "seqI_empty", sort: "SeqInt", deps: []string{"sort:SeqInt"}})
	c.fun("seqI_single", []Sort{SInt}, "SeqInt")
	c.fun("seqI_cat", []Sort{"SeqInt", "SeqInt"}, "SeqInt")
	c.fun("seqI_len", []Sort{"SeqInt"}, SInt)
	c.fun("seqofI", []Sort{arrSort(SInt, SInt), SInt, SInt}, "SeqInt")
	row := arrSort(SInt, SInt)
	c.axiom("seqI:len0", fmt.Sprintf("(forall ((r!q %s) (o!q Int)) (! (= (seqofI r!q o!q 0) seqI_empty) :pattern ((seqofI r!q o!q 0))))", row), "seqofI")
	c.axiom("seqI:len1", fmt.Sprintf("(forall ((r!q %s) (o!q Int)) (! (= (seqofI r!q o!q 1) (seqI_single (select r!q o!q))) :pattern ((seqofI r!q o!q 1))))", row), "seqofI")
	c.axiom("seqI:unitl", "(forall ((s!q SeqInt)) (! (= (seqI_cat seqI_empty s!q) s!q) :pattern ((seqI_cat seqI_empty s!q))))", "seqI_cat")
	c.axiom("seqI:unitr", "(forall ((s!q SeqInt)) (! (= (seqI_cat s!q seqI_empty) s!q) :pattern ((seqI_cat s!q seqI_empty))))", "seqI_cat")
	c.axiom("seqI:lene", "(= (seqI_len seqI_empty) 0)", "seqI_len")
	c.axiom("seqI:lens", "(forall ((x!q Int)) (! (= (seqI_len (seqI_single x!q)) 1) :pattern ((seqI_single x!q))))", "seqI_len")
	c.axiom("seqI:lenc", "(forall ((a!q SeqInt) (b!q SeqInt)) (! (= (seqI_len (seqI_cat a!q b!q)) (+ (seqI_len a!q) (seqI_len b!q))) :pattern ((seqI_cat a!q b!q))))", "seqI_len")
}

// includeRawAxioms registers the package's raw (definitional) axioms in this context.
func (e *Engine) includeRawAxioms() {
	if e.rawDone {
		return
	}
	e.rawDone = true
	// declare every spec function first, so that the axioms' dependencies are complete
	var names []string
	for n := range e.w.spec.UFs {
		names = append(names, n)
	}
	sort.Strings(names)
	for _, n := range names {
		e.declareUF(e.w.spec.UFs[n])
	}
	for i, ra := range e.w.spec.RawAxioms {
		// included when ANY of the listed symbols is in the cone of the query
		for _, w := range ra.When {
			e.c.axiom(fmt.Sprintf("raw:%d:%s", i, w), ra.Body, w)
		}
	}
}

// declareUF declares the SMT function of an uninterpreted spec function.
func (e *Engine) declareUF(uf *UFDecl) {
	var sorts []Sort
	for _, at := range uf.Args {
		t := e.resolveType(at, uf.Pkg)
		if sl, isSlice := t.(*types.Slice); t != nil && isSlice {
			sorts = append(sorts, arrSort(SInt, e.fl.leaves(sl.Elem())[0].Sort), SInt, SInt)
			continue
		}
		so := SInt
		if t != nil {
			so = e.fl.leaves(t)[0].Sort
		} else if at.Name == "seqbytes" {
			e.seqSetupInt()
			so = "SeqInt"
		} else if at.Name == "seq" {
			e.seqSetup()
			so = "SeqStr"
		}
		sorts = append(sorts, so)
	}
	rs := SInt
	if uf.Res.Name == "seq" && uf.Res.Pkg == "" {
		e.seqSetup()
		rs = "SeqStr"
	} else if uf.Res.Name == "seqbytes" && uf.Res.Pkg == "" {
		e.seqSetupInt()
		rs = "SeqInt"
	} else if rt := e.resolveType(uf.Res, uf.Pkg); rt != nil && !(uf.Res.Name == "int" && uf.Res.Pkg == "") {
		rs = e.fl.leaves(rt)[0].Sort
	}
	e.c.fun("uf_"+uf.Name, sorts, rs)
}

// scopedAlloc finds the Alloc of the local variable that the identifier name denotes, by go/types scoping, at a
// position inside the current loop's body (or at the end of the function when not in a loop clause).
func (env *SpecEnv) scopedAlloc(name string) *ssa.Alloc {
	fx := env.fx
	if fx == nil || fx.fn == nil || fx.fn.Pkg == nil || fx.fn.Pkg.Pkg == nil {
		return nil
	}
	var at token.Pos
	if env.loop != nil {
		for b := range env.loop.body {
			if b == env.loop.header {
				continue
			}
			for _, in := range b.Instrs {
				if p := in.Pos(); p.IsValid() && p > at {
					at = p
				}
			}
		}
	} else if syn := fx.fn.Syntax(); syn != nil {
		at = syn.End() - 1
	}
	if !at.IsValid() {
		return nil
	}
	sc := fx.fn.Pkg.Pkg.Scope().Innermost(at)
	if sc == nil {
		return nil
	}
	_, obj := sc.LookupParent(name, at)
	if obj == nil {
		return nil
	}
	for _, b := range fx.fn.Blocks {
		for _, in := range b.Instrs {
			if a, ok := in.(*ssa.Alloc); ok && a.Comment == name && a.Pos() == obj.Pos() {
				return a
			}
		}
	}
	return nil
}
