package main

// Contract files: parsing of directives and of the specification expression language.

import (
	"fmt"
	"os"
	"regexp"
	"strconv"
	"strings"
	"unicode"
)

type SExpr struct {
	Op      string // id num str bin un sel idx call forall exists tassert
	Name    string
	Args    []*SExpr
	Binders []Binder
	Trig    [][]*SExpr
	TypeX   *STypeExpr
	Src     string
}

type Binder struct {
	Name string
	Type *STypeExpr
}

type STypeExpr struct {
	Kind string // named, ptr, slice, map, basic
	Pkg  string
	Name string
	Elem *STypeExpr
	Key  *STypeExpr
}

func (t *STypeExpr) String() string {
	switch t.Kind {
	case "ptr":
		return "*" + t.Elem.String()
	case "slice":
		return "[]" + t.Elem.String()
	case "map":
		return "map[" + t.Key.String() + "]" + t.Elem.String()
	}
	if t.Pkg != "" {
		return t.Pkg + "." + t.Name
	}
	return t.Name
}

type Clause struct {
	Label string
	Tags  []string
	Expr  *SExpr
	Src   string
	File  string
	Line  int
	Pkg   string // package path the clause was written in (for name resolution)
	This  string // type name of `this` for invariants
}

func (c *Clause) labelStr() string {
	if c.Label == "" {
		return ""
	}
	return "[" + c.Label + "]"
}

type LoopContract struct {
	Invs     []*Clause
	Dec      *Clause
	Blocking bool
	Unroll   int
}

type CallSiteAssert struct {
	Callee string
	N      int
	C      *Clause
	Set    string // `callsite f#n sets $g := e`: ghost updated at this call (C is the new value)
	seen   bool
}

// GhostUpdate: `onacquire $g := e` (ghost updated right after the function's first lock acquisition) and
// `onacquire assume e` (an environment fact about that moment, listed in the evidence).
type GhostUpdate struct {
	Ghost  string
	C      *Clause
	Assume bool
}

type FnContract struct {
	Key       string
	Header    string
	Params    []string // optional explicit names (extern)
	Results   []string
	Requires  []*Clause
	Ensures   []*Clause
	Loops     map[int]*LoopContract
	Held      []string // lock expressions held on entry and exit, e.g. "gb.mu"
	Modifies  []string
	ModDeclared bool
	Inline    bool
	Trusted   bool
	Entry     bool
	Optional  bool
	Blocking  bool
	Pure      bool
	Constructor bool
	ConsType  string
	CallSites []*CallSiteAssert
	Captures  []*Clause
	OnAcquire []*GhostUpdate
	AbsModifies []string // ghosts havocked at call sites on behalf of the abstraction clauses
	AbsEnsure []*Clause // assumed postconditions relating an abstract ghost view to the result (used by callers, not checked in the body; listed in the evidence)
	EnvAssume []*Clause // environment assumptions on the state at the first acquire, used only for obligations of the clause's properties
	Pkg       string
	File      string
	Line      int
	InterruptibleBy string
	Deltas    []*Clause
	Dec       *Clause
	OnAssign  []*CallSiteAssert // Callee = local variable name: asserted right after its first assignment
	DeadReturns map[int]bool // return sites (numbered in source order) that the contracts make unreachable on purpose
	FreshWrites []string // struct types whose fields this function may only write on objects it owns (fresh / mine)
}

type PredDef struct {
	Name   string
	Params []Binder
	Body   *SExpr
	Pkg    string
}

type GhostDecl struct {
	Name string
	Type *STypeExpr
	Pkg  string
}

type LockInv struct {
	Class  string // "pkg.T.field"
	Name   string
	Clause *Clause
}

type Protect struct {
	Struct string // type name as written (pkg-local or pkg.T)
	Field  string
	Class  string // guarded_by | atomic | immutable | init_once | confined | write_once | free
	Lock   string // for guarded_by: "T.mu"
	Pkg    string
}

type SpecDB struct {
	Fns      map[string]*FnContract
	Preds    map[string]*PredDef
	Ghosts   map[string]*GhostDecl
	LockInvs map[string][]*LockInv
	Protects map[string]*Protect // "pkgpath.T.field"
	TypeInvs map[string][]*Clause
	LockLevel map[string]int
	Guards   map[string][]string // lock class -> extra heap keys (ghosts) havocked at acquire
	Options  map[string]map[string]string // pkg -> option -> value
	Imports  map[string]map[string]string // pkg -> alias -> import path
	Dyn      map[string]*FnContract
	Lemmas   []*Clause
	UFs      map[string]*UFDecl
	Tracked  map[string]bool
	Assumed    []string // `assumption [C18] text` directives: stated, unchecked assumptions copied into the evidence
	CloseOnly  map[string][]string // pkg.T.field -> tags: channels that are only ever closed, never sent on
	EnvProps   map[string]bool // properties that have envassume clauses
	RaceStrict map[string]bool
	SweepWrappers map[string]bool
	RawAxioms []RawAxiom
	Callers  []*CallersDecl
	Conds    map[string]string
	GlobalInvs map[string][]*Clause
	AutoTags []AutoTag
	Mono     map[string][]*Clause // lock class -> two-state clauses checked at unlock
	Errors   []string
	Files    []string
	AssumeScan []string
}

type RawAxiom struct {
	When []string
	Body string
	Pkg  string
	Line int
}

type CallersDecl struct {
	Label   string
	Tags    []string
	Fn      string
	Allowed []string
	Pkg     string
	File    string
	Line    int
}

type UFDecl struct {
	Name string
	Args []*STypeExpr
	Res  *STypeExpr
	Pkg  string
}

type AutoTag struct {
	Kind string
	Fn   string
	File string
	Tags []string
	Pkg  string
}

func newSpecDB() *SpecDB {
	return &SpecDB{GlobalInvs: map[string][]*Clause{}, UFs: map[string]*UFDecl{}, Tracked: map[string]bool{}, RaceStrict: map[string]bool{}, SweepWrappers: map[string]bool{}, Conds: map[string]string{}, Fns: map[string]*FnContract{}, Preds: map[string]*PredDef{}, Ghosts: map[string]*GhostDecl{},
		LockInvs: map[string][]*LockInv{}, Protects: map[string]*Protect{}, TypeInvs: map[string][]*Clause{},
		LockLevel: map[string]int{}, Guards: map[string][]string{}, Options: map[string]map[string]string{},
		Imports: map[string]map[string]string{}, Dyn: map[string]*FnContract{}, Mono: map[string][]*Clause{}}
}

var labelRe = regexp.MustCompile(`^\[([A-Za-z0-9_.,@\- ]+)\]\s*`)

// parseLabel strips a leading [C01.name] or [C01,C04 name] label.
func parseLabel(s string) (label string, tags []string, rest string) {
	m := labelRe.FindStringSubmatch(s)
	if m == nil {
		return "", nil, s
	}
	label = strings.TrimSpace(m[1])
	rest = s[len(m[0]):]
	for _, part := range regexp.MustCompile(`C[0-9]{2,3}`).FindAllString(label, -1) {
		tags = append(tags, part)
	}
	return
}

var directiveKW = map[string]bool{"closeonly": true, "assumption": true, "autotagfn": true, "globalinv": true, "uf": true, "tracked": true, "cond": true, "callers": true, "racestrict": true, "sweepwrappers": true, "rawaxiom": true, "autotag": true, "option": true, "import": true, "ghost": true, "pred": true, "inv": true, "lockinv": true, "protect": true,
	"typeinv": true, "lockorder": true, "guards": true, "func": true, "dyn": true, "lemma": true, "mono": true, "spec": true}
var clauseKW = map[string]bool{"requires": true, "ensures": true, "loop": true, "locks": true, "modifies": true, "inline": true,
	"trusted": true, "entry": true, "optional": true, "blocking": true, "pure": true, "callsite": true, "captures": true, "envassume": true, "absensures": true, "absmodifies": true, "onacquire": true,
	"interruptible_by": true, "constructor": true, "delta": true, "decreases": true, "fresh_writes": true, "onassign": true, "deadreturn": true}

// loadSpecFile parses one contract file. goFile: lines are taken from //@ comments.
func (db *SpecDB) loadSpecFile(path string, pkgPath string, goFile bool) {
	data, err := os.ReadFile(path)
	if err != nil {
		db.Errors = append(db.Errors, err.Error())
		return
	}
	db.Files = append(db.Files, path)
	type line struct {
		s string
		n int
	}
	var lines []line
	for i, l := range strings.Split(string(data), "\n") {
		if goFile {
			t := strings.TrimSpace(l)
			if !strings.HasPrefix(t, "//@") {
				continue
			}
			l = strings.TrimPrefix(t, "//@")
		}
		if j := strings.Index(l, "//"); j >= 0 && !goFile {
			l = l[:j]
		} else if goFile {
			if j := strings.Index(l, " // "); j >= 0 {
				l = l[:j]
			}
		}
		if strings.TrimSpace(l) == "" || strings.HasPrefix(strings.TrimSpace(l), "#") {
			continue
		}
		lines = append(lines, line{l, i + 1})
	}
	// group into logical lines: a line starting with a keyword starts a new item
	type item struct {
		kw   string
		text string
		n    int
	}
	var items []item
	for _, l := range lines {
		t := strings.TrimSpace(l.s)
		first := t
		if i := strings.IndexAny(t, " \t("); i >= 0 {
			first = t[:i]
		}
		if directiveKW[first] || clauseKW[first] {
			items = append(items, item{first, strings.TrimSpace(t[len(first):]), l.n})
		} else if len(items) > 0 {
			items[len(items)-1].text += " " + t
		} else {
			db.Errors = append(db.Errors, fmt.Sprintf("%s:%d: text before any directive", path, l.n))
		}
	}
	if strings.Contains(string(data), "assume ") && goFile {
		for _, it := range items {
			if it.kw == "onacquire" {
				continue // a stated environment fact, copied into the evidence (see the onacquire case)
			}
			if strings.HasPrefix(it.text, "assume ") || it.kw == "assume" {
				db.AssumeScan = append(db.AssumeScan, fmt.Sprintf("%s:%d", path, it.n))
			}
		}
	}
	var cur *FnContract
	mkClause := func(text string, n int) *Clause {
		label, tags, rest := parseLabel(text)
		ex, err := parseSpecExpr(rest)
		if err != nil {
			db.Errors = append(db.Errors, fmt.Sprintf("%s:%d: %v in %q", path, n, err, rest))
			ex = &SExpr{Op: "id", Name: "true"}
		}
		return &Clause{Label: label, Tags: tags, Expr: ex, Src: rest, File: path, Line: n, Pkg: pkgPath}
	}
	for _, it := range items {
		switch it.kw {
		case "option":
			kv := strings.SplitN(it.text, "=", 2)
			if db.Options[pkgPath] == nil {
				db.Options[pkgPath] = map[string]string{}
			}
			if len(kv) == 2 {
				db.Options[pkgPath][strings.TrimSpace(kv[0])] = strings.TrimSpace(kv[1])
			}
		case "import":
			f := strings.Fields(it.text)
			if len(f) == 2 {
				if db.Imports[pkgPath] == nil {
					db.Imports[pkgPath] = map[string]string{}
				}
				db.Imports[pkgPath][f[0]] = strings.Trim(f[1], `"`)
			}
		case "ghost":
			f := strings.SplitN(it.text, " ", 2)
			if len(f) == 2 {
				p := &sparser{toks: lexSpec(f[1])}
				te, err := p.parseType()
				if err != nil {
					db.Errors = append(db.Errors, fmt.Sprintf("%s:%d: %v", path, it.n, err))
					continue
				}
				db.Ghosts[f[0]] = &GhostDecl{Name: f[0], Type: te, Pkg: pkgPath}
			}
		case "pred", "spec":
			// pred Name(a T, b U) := expr
			i := strings.Index(it.text, ":=")
			if i < 0 {
				db.Errors = append(db.Errors, fmt.Sprintf("%s:%d: pred without :=", path, it.n))
				continue
			}
			head, body := strings.TrimSpace(it.text[:i]), strings.TrimSpace(it.text[i+2:])
			p := &sparser{toks: lexSpec(head)}
			name := p.next().s
			var params []Binder
			if p.peek().s == "(" {
				p.next()
				for p.peek().s != ")" && p.peek().k != tEOF {
					bn := p.next().s
					te, err := p.parseType()
					if err != nil {
						db.Errors = append(db.Errors, fmt.Sprintf("%s:%d: %v", path, it.n, err))
						break
					}
					params = append(params, Binder{bn, te})
					if p.peek().s == "," {
						p.next()
					}
				}
			}
			ex, err := parseSpecExpr(body)
			if err != nil {
				db.Errors = append(db.Errors, fmt.Sprintf("%s:%d: %v", path, it.n, err))
				continue
			}
			db.Preds[name] = &PredDef{Name: name, Params: params, Body: ex, Pkg: pkgPath}
		case "inv", "lockinv":
			// inv T.mu Name [tags] := expr
			i := strings.Index(it.text, ":=")
			if i < 0 {
				db.Errors = append(db.Errors, fmt.Sprintf("%s:%d: inv without :=", path, it.n))
				continue
			}
			head := strings.Fields(it.text[:i])
			if len(head) < 2 {
				db.Errors = append(db.Errors, fmt.Sprintf("%s:%d: inv needs class and name", path, it.n))
				continue
			}
			class := pkgPath + "." + head[0]
			name := head[1]
			cl := mkClause(strings.Join(head[2:], " ")+" "+strings.TrimSpace(it.text[i+2:]), it.n)
			cl.Label = name
			cl.This = head[0][:strings.Index(head[0], ".")]
			db.LockInvs[class] = append(db.LockInvs[class], &LockInv{Class: class, Name: name, Clause: cl})
		case "mono":
			i := strings.Index(it.text, ":=")
			head := strings.Fields(it.text[:i])
			class := pkgPath + "." + head[0]
			cl := mkClause(strings.Join(head[1:], " ")+" "+strings.TrimSpace(it.text[i+2:]), it.n)
			cl.This = head[0][:strings.Index(head[0], ".")]
			db.Mono[class] = append(db.Mono[class], cl)
		case "typeinv":
			i := strings.Index(it.text, ":=")
			if i < 0 {
				continue
			}
			tn := strings.TrimSpace(it.text[:i])
			tcl := mkClause(strings.TrimSpace(it.text[i+2:]), it.n)
			tcl.This = tn
			db.TypeInvs[pkgPath+"."+tn] = append(db.TypeInvs[pkgPath+"."+tn], tcl)
		case "protect":
			// protect T.{a,b,c} guarded_by T.mu | atomic | immutable | ...
			f := strings.Fields(it.text)
			if len(f) < 2 {
				continue
			}
			target := f[0]
			class := f[1]
			lock := ""
			if len(f) > 2 {
				lock = pkgPath + "." + f[2]
			}
			dot := strings.Index(target, ".")
			if dot < 0 {
				continue
			}
			tn, fs := target[:dot], target[dot+1:]
			fs = strings.Trim(fs, "{}")
			for _, fld := range strings.Split(fs, ",") {
				fld = strings.TrimSpace(fld)
				if fld == "" {
					continue
				}
				db.Protects[pkgPath+"."+tn+"."+fld] = &Protect{Struct: tn, Field: fld, Class: class, Lock: lock, Pkg: pkgPath}
			}
		case "guards":
			// guards T.mu: key1, key2   (extra heap keys / ghosts havocked at acquire)
			i := strings.Index(it.text, ":")
			if i < 0 {
				continue
			}
			class := pkgPath + "." + strings.TrimSpace(it.text[:i])
			for _, k := range strings.Split(it.text[i+1:], ",") {
				db.Guards[class] = append(db.Guards[class], strings.TrimSpace(k))
			}
		case "lockorder":
			// lockorder A.mu < B.mu < C.mu
			parts := strings.Split(it.text, "<")
			for i, p := range parts {
				db.LockLevel[pkgPath+"."+strings.TrimSpace(p)] = i + 1
			}
		case "lemma":
			db.Lemmas = append(db.Lemmas, mkClause(it.text, it.n))
		case "uf":
			// uf name(T1, T2) T
			i := strings.Index(it.text, "(")
			j := matchParen(it.text, i)
			if i < 0 {
				continue
			}
			u := &UFDecl{Name: strings.TrimSpace(it.text[:i]), Pkg: pkgPath}
			for _, a := range strings.Split(it.text[i+1:j], ",") {
				if a = strings.TrimSpace(a); a != "" {
					pp := &sparser{toks: lexSpec(a)}
					te, err := pp.parseType()
					if err != nil {
						db.Errors = append(db.Errors, fmt.Sprintf("%s:%d: %v", path, it.n, err))
						continue
					}
					u.Args = append(u.Args, te)
				}
			}
			pp := &sparser{toks: lexSpec(it.text[j+1:])}
			te, err := pp.parseType()
			if err != nil {
				db.Errors = append(db.Errors, fmt.Sprintf("%s:%d: %v", path, it.n, err))
				continue
			}
			u.Res = te
			db.UFs[u.Name] = u
		case "cond":
			// cond T.condfield uses T.lockfield
			f := strings.Fields(it.text)
			if len(f) == 3 && f[1] == "uses" {
				db.Conds["field:"+pkgPath+"."+f[0]] = pkgPath + "." + f[2]
			}
		case "callers":
			// callers [C03.x] fn: a b c   -- only the listed functions may call fn (call-graph obligation)
			label, tags, rest := parseLabel(it.text)
			i := strings.Index(rest, ":")
			if i < 0 {
				db.Errors = append(db.Errors, fmt.Sprintf("%s:%d: bad callers directive", path, it.n))
				continue
			}
			db.Callers = append(db.Callers, &CallersDecl{Label: label, Tags: tags, Fn: strings.TrimSpace(rest[:i]), Allowed: strings.Fields(rest[i+1:]), Pkg: pkgPath, File: path, Line: it.n})
		case "rawaxiom":
			// rawaxiom <symbol that triggers inclusion> :: <SMT-LIB term>   (definitional axioms of spec functions)
			i := strings.Index(it.text, "::")
			if i < 0 {
				db.Errors = append(db.Errors, fmt.Sprintf("%s:%d: rawaxiom without ::", path, it.n))
				continue
			}
			db.RawAxioms = append(db.RawAxioms, RawAxiom{When: strings.Fields(it.text[:i]), Body: strings.TrimSpace(it.text[i+2:]), Pkg: pkgPath, Line: it.n})
		case "sweepwrappers":
			for _, t := range strings.Fields(it.text) {
				db.SweepWrappers[pkgPath+"."+t] = true
			}
		case "closeonly":
			// closeonly [C12] T.field: nobody sends on the channel in this field; a receive from it succeeds iff it is closed
			var ctags []string
			if m := labelRe.FindStringSubmatch(strings.TrimSpace(it.text)); m != nil {
				ctags = regexp.MustCompile(`C[0-9]{2,3}`).FindAllString(m[1], -1)
			}
			txt := strings.TrimSpace(labelRe.ReplaceAllString(strings.TrimSpace(it.text), ""))
			if db.CloseOnly == nil {
				db.CloseOnly = map[string][]string{}
			}
			for _, f := range strings.Fields(txt) {
				db.CloseOnly[pkgPath+"."+f] = ctags
			}
		case "assumption":
			db.Assumed = append(db.Assumed, it.text)
		case "racestrict":
			for _, t := range strings.Fields(it.text) {
				db.RaceStrict[pkgPath+"."+t] = true
			}
		case "tracked":
			for _, t := range strings.Fields(it.text) {
				db.Tracked[pkgPath+"."+t] = true
			}
		case "globalinv":
			db.GlobalInvs[pkgPath] = append(db.GlobalInvs[pkgPath], mkClause(it.text, it.n))
		case "autotagfn":
			// autotagfn <kind> <function name> C18
			f := strings.Fields(it.text)
			if len(f) >= 3 {
				db.AutoTags = append(db.AutoTags, AutoTag{Kind: f[0], Fn: f[1], Tags: f[2:], Pkg: pkgPath})
			}
		case "autotag":
			// autotag <kind> <file-suffix|*> C05 C12
			f := strings.Fields(it.text)
			if len(f) >= 3 {
				db.AutoTags = append(db.AutoTags, AutoTag{Kind: f[0], File: f[1], Tags: f[2:], Pkg: pkgPath})
			}
		case "func", "dyn":
			cur = &FnContract{Header: it.text, Loops: map[int]*LoopContract{}, Pkg: pkgPath, File: path, Line: it.n}
			key, params, results := parseFuncHeader(it.text, pkgPath, goFile)
			if it.kw == "dyn" && !strings.Contains(key, "/") {
				if i := strings.Index(key, ":"); i >= 0 {
					key = key[:i+1] + pkgPath + "." + key[i+1:]
				}
			}
			cur.Key, cur.Params, cur.Results = key, params, results
			if it.kw == "dyn" {
				db.Dyn[key] = cur
			} else {
				if _, dup := db.Fns[key]; dup {
					db.Errors = append(db.Errors, fmt.Sprintf("%s:%d: duplicate contract for %s", path, it.n, key))
				}
				db.Fns[key] = cur
			}
		default:
			if cur == nil {
				db.Errors = append(db.Errors, fmt.Sprintf("%s:%d: clause %q outside a func", path, it.n, it.kw))
				continue
			}
			switch it.kw {
			case "requires":
				cur.Requires = append(cur.Requires, mkClause(it.text, it.n))
			case "ensures":
				cur.Ensures = append(cur.Ensures, mkClause(it.text, it.n))
			case "captures":
				cur.Captures = append(cur.Captures, mkClause(it.text, it.n))
			case "onacquire":
				t := strings.TrimSpace(it.text)
				if strings.HasPrefix(t, "assume ") {
					cur.OnAcquire = append(cur.OnAcquire, &GhostUpdate{Assume: true, C: mkClause(strings.TrimSpace(t[7:]), it.n)})
					db.Assumed = append(db.Assumed, t[7:]+"  (assumed at the first lock acquisition of "+cur.Key+")")
				} else if i := strings.Index(t, ":="); i > 0 {
					cur.OnAcquire = append(cur.OnAcquire, &GhostUpdate{Ghost: strings.TrimSpace(t[:i]), C: mkClause(strings.TrimSpace(t[i+2:]), it.n)})
				} else {
					db.Errors = append(db.Errors, fmt.Sprintf("%s:%d: bad onacquire clause", path, it.n))
				}
			case "absmodifies":
				for _, g := range strings.Split(it.text, ",") {
					if g = strings.TrimSpace(g); g != "" {
						cur.AbsModifies = append(cur.AbsModifies, g)
					}
				}
			case "absensures":
				cur.AbsEnsure = append(cur.AbsEnsure, mkClause(it.text, it.n))
				db.Assumed = append(db.Assumed, it.text+"  (abstraction clause of "+cur.Key+": assumed at its call sites, not checked against its body)")
			case "envassume":
				ec := mkClause(it.text, it.n)
				cur.EnvAssume = append(cur.EnvAssume, ec)
				if db.EnvProps == nil {
					db.EnvProps = map[string]bool{}
				}
				for _, t := range ec.Tags {
					db.EnvProps[t] = true
				}
				db.Assumed = append(db.Assumed, it.text+"  (environment assumption of "+cur.Key+", used only for the obligations of the properties named in its tag)")
			case "decreases":
				cur.Dec = mkClause(it.text, it.n)
			case "onassign":
				f := strings.SplitN(it.text, " ", 3)
				if len(f) < 3 || f[1] != "asserts" {
					db.Errors = append(db.Errors, fmt.Sprintf("%s:%d: bad onassign clause", path, it.n))
					continue
				}
				cur.OnAssign = append(cur.OnAssign, &CallSiteAssert{Callee: f[0], N: 1, C: mkClause(f[2], it.n)})
			case "deadreturn":
				if cur.DeadReturns == nil {
					cur.DeadReturns = map[int]bool{}
				}
				for _, f := range strings.Fields(it.text) {
					if n, err := strconv.Atoi(f); err == nil {
						cur.DeadReturns[n] = true
					}
				}
			case "fresh_writes":
				cur.FreshWrites = append(cur.FreshWrites, strings.Fields(it.text)...)
			case "delta":
				cur.Deltas = append(cur.Deltas, mkClause(it.text, it.n))
			case "loop":
				f := strings.SplitN(it.text, " ", 3)
				n, err := strconv.Atoi(f[0])
				if err != nil || len(f) < 2 {
					db.Errors = append(db.Errors, fmt.Sprintf("%s:%d: bad loop clause", path, it.n))
					continue
				}
				lc := cur.Loops[n]
				if lc == nil {
					lc = &LoopContract{}
					cur.Loops[n] = lc
				}
				rest := ""
				if len(f) == 3 {
					rest = f[2]
				}
				switch f[1] {
				case "invariant":
					lc.Invs = append(lc.Invs, mkClause(rest, it.n))
				case "decreases":
					lc.Dec = mkClause(rest, it.n)
				case "blocking":
					lc.Blocking = true
				case "unroll":
					lc.Unroll, _ = strconv.Atoi(strings.TrimSpace(rest))
				default:
					db.Errors = append(db.Errors, fmt.Sprintf("%s:%d: unknown loop clause %q", path, it.n, f[1]))
				}
			case "locks":
				f := strings.Fields(it.text)
				if len(f) >= 2 && f[0] == "held" {
					cur.Held = append(cur.Held, f[1:]...)
				}
			case "modifies":
				cur.ModDeclared = true
				for _, k := range strings.Split(it.text, ",") {
					if k = strings.TrimSpace(k); k != "" && k != "nothing" {
						cur.Modifies = append(cur.Modifies, k)
					}
				}
			case "inline":
				cur.Inline = true
			case "trusted":
				cur.Trusted = true
			case "entry":
				cur.Entry = true
			case "optional":
				cur.Optional = true
			case "blocking":
				cur.Blocking = true
			case "pure":
				cur.Pure = true
			case "constructor":
				cur.Constructor = true
				cur.ConsType = strings.TrimSpace(it.text)
			case "interruptible_by":
				cur.InterruptibleBy = strings.TrimSpace(it.text)
			case "callsite":
				// callsite callee#n asserts [label] expr
				f := strings.SplitN(it.text, " ", 3)
				if len(f) >= 3 && f[1] == "sets" {
					// callsite callee#n sets $g := expr
					i := strings.Index(f[2], ":=")
					if i < 0 {
						db.Errors = append(db.Errors, fmt.Sprintf("%s:%d: bad callsite sets clause", path, it.n))
						continue
					}
					callee, n := f[0], 1
					if j := strings.Index(callee, "#"); j >= 0 {
						n, _ = strconv.Atoi(callee[j+1:])
						callee = callee[:j]
					}
					cur.CallSites = append(cur.CallSites, &CallSiteAssert{Callee: callee, N: n, Set: strings.TrimSpace(f[2][:i]), C: mkClause(strings.TrimSpace(f[2][i+2:]), it.n)})
					continue
				}
				if len(f) < 3 || f[1] != "asserts" {
					db.Errors = append(db.Errors, fmt.Sprintf("%s:%d: bad callsite clause", path, it.n))
					continue
				}
				callee, n := f[0], 1
				if i := strings.Index(callee, "#"); i >= 0 {
					n, _ = strconv.Atoi(callee[i+1:])
					callee = callee[:i]
				}
				cur.CallSites = append(cur.CallSites, &CallSiteAssert{Callee: callee, N: n, C: mkClause(f[2], it.n)})
			}
		}
	}
}

// parseFuncHeader extracts the lookup key from "func (gb *gcpBalancer) bindSubConn(...)" (in-repo)
// or "func google.golang.org/grpc/balancer.ClientConn.NewSubConn(addrs, opts) (sc, err)" (extern).
func parseFuncHeader(h string, pkgPath string, goFile bool) (key string, params, results []string) {
	h = strings.TrimSpace(h)
	names := func(s string) []string {
		var out []string
		s = strings.TrimSpace(s)
		s = strings.TrimPrefix(s, "(")
		s = strings.TrimSuffix(s, ")")
		for _, p := range strings.Split(s, ",") {
			p = strings.TrimSpace(p)
			if p == "" {
				continue
			}
			out = append(out, strings.Fields(p)[0])
		}
		return out
	}
	if strings.HasPrefix(h, "(") {
		// method with receiver
		end := strings.Index(h, ")")
		recv := strings.Fields(h[1:end])
		rt := recv[len(recv)-1]
		rest := strings.TrimSpace(h[end+1:])
		name := rest
		if i := strings.Index(rest, "("); i >= 0 {
			name = rest[:i]
			// params / results
			j := matchParen(rest, i)
			params = names(rest[i : j+1])
			if j+1 < len(rest) {
				results = names(rest[j+1:])
			}
		}
		ptr := ""
		if strings.HasPrefix(rt, "*") {
			ptr = "*"
			rt = rt[1:]
		}
		pp := pkgPath
		if i := strings.LastIndex(rt, "."); i >= 0 {
			pp = rt[:i]
			rt = rt[i+1:]
		}
		return fmt.Sprintf("%s.(%s%s).%s", pp, ptr, rt, strings.TrimSpace(name)), params, results
	}
	name := h
	if sp := strings.Index(h, " "); sp >= 0 && !goFile {
		// extern: "<key> (params) (results)"
		name = h[:sp]
		rest := strings.TrimSpace(h[sp:])
		if strings.HasPrefix(rest, "(") {
			j := matchParen(rest, 0)
			params = names(rest[:j+1])
			if j+1 < len(rest) {
				results = names(rest[j+1:])
			}
		}
		return name, params, results
	}
	if i := strings.Index(h, "("); i >= 0 {
		name = h[:i]
		j := matchParen(h, i)
		params = names(h[i : j+1])
		if j+1 < len(h) {
			results = names(h[j+1:])
		}
	}
	name = strings.TrimSpace(name)
	if strings.Contains(name, ".") || strings.Contains(name, ":") {
		return name, params, results
	}
	return pkgPath + "." + name, params, results
}

func matchParen(s string, i int) int {
	d := 0
	for j := i; j < len(s); j++ {
		switch s[j] {
		case '(':
			d++
		case ')':
			d--
			if d == 0 {
				return j
			}
		}
	}
	return len(s) - 1
}

// ---------- expression lexer / parser ----------

const (
	tEOF = iota
	tIdent
	tNum
	tStr
	tOp
)

type stok struct {
	k int
	s string
}

func lexSpec(s string) []stok {
	var out []stok
	i := 0
	for i < len(s) {
		c := rune(s[i])
		switch {
		case unicode.IsSpace(c):
			i++
		case unicode.IsLetter(c) || c == '_' || c == '$':
			j := i + 1
			for j < len(s) && (unicode.IsLetter(rune(s[j])) || unicode.IsDigit(rune(s[j])) || s[j] == '_' || s[j] == '$') {
				j++
			}
			out = append(out, stok{tIdent, s[i:j]})
			i = j
		case unicode.IsDigit(c):
			j := i + 1
			for j < len(s) && (unicode.IsDigit(rune(s[j])) || s[j] == '_' || s[j] == 'x' || (s[j] >= 'a' && s[j] <= 'f') || (s[j] >= 'A' && s[j] <= 'F')) {
				j++
			}
			// decimal fraction / exponent: a floating-point literal
			if j < len(s) && s[j] == '.' && j+1 < len(s) && unicode.IsDigit(rune(s[j+1])) {
				j++
				for j < len(s) && unicode.IsDigit(rune(s[j])) {
					j++
				}
				if j < len(s) && (s[j] == 'e' || s[j] == 'E') {
					j++
					if j < len(s) && (s[j] == '+' || s[j] == '-') {
						j++
					}
					for j < len(s) && unicode.IsDigit(rune(s[j])) {
						j++
					}
				}
			}
			out = append(out, stok{tNum, strings.ReplaceAll(s[i:j], "_", "")})
			i = j
		case c == '"':
			j := i + 1
			for j < len(s) && s[j] != '"' {
				if s[j] == '\\' {
					j++
				}
				j++
			}
			v, err := strconv.Unquote(s[i : j+1])
			if err != nil {
				v = s[i+1 : j]
			}
			out = append(out, stok{tStr, v})
			i = j + 1
		default:
			for _, op := range []string{"<==>", "==>", "::", "==", "!=", "<=", ">=", "&&", "||", ".("} {
				if strings.HasPrefix(s[i:], op) {
					out = append(out, stok{tOp, op})
					i += len(op)
					goto next
				}
			}
			out = append(out, stok{tOp, string(c)})
			i++
		next:
		}
	}
	return out
}

type sparser struct {
	toks []stok
	pos  int
}

func (p *sparser) peek() stok {
	if p.pos < len(p.toks) {
		return p.toks[p.pos]
	}
	return stok{tEOF, ""}
}
func (p *sparser) peekN(n int) stok {
	if p.pos+n < len(p.toks) {
		return p.toks[p.pos+n]
	}
	return stok{tEOF, ""}
}
func (p *sparser) next() stok {
	t := p.peek()
	p.pos++
	return t
}
func (p *sparser) expect(s string) error {
	if t := p.next(); t.s != s {
		return fmt.Errorf("expected %q, got %q", s, t.s)
	}
	return nil
}

func parseSpecExpr(s string) (*SExpr, error) {
	p := &sparser{toks: lexSpec(s)}
	e, err := p.parseExpr()
	if err != nil {
		return nil, err
	}
	if p.peek().k != tEOF {
		return nil, fmt.Errorf("unexpected %q after expression", p.peek().s)
	}
	e.Src = s
	return e, nil
}

func (p *sparser) parseType() (*STypeExpr, error) {
	t := p.next()
	switch {
	case t.s == "*":
		e, err := p.parseType()
		return &STypeExpr{Kind: "ptr", Elem: e}, err
	case t.s == "[":
		if err := p.expect("]"); err != nil {
			return nil, err
		}
		e, err := p.parseType()
		return &STypeExpr{Kind: "slice", Elem: e}, err
	case t.s == "map":
		if err := p.expect("["); err != nil {
			return nil, err
		}
		k, err := p.parseType()
		if err != nil {
			return nil, err
		}
		if err := p.expect("]"); err != nil {
			return nil, err
		}
		e, err := p.parseType()
		return &STypeExpr{Kind: "map", Key: k, Elem: e}, err
	case t.k == tIdent:
		if p.peek().s == "." && p.peekN(1).k == tIdent {
			p.next()
			n := p.next()
			return &STypeExpr{Kind: "named", Pkg: t.s, Name: n.s}, nil
		}
		return &STypeExpr{Kind: "named", Name: t.s}, nil
	}
	return nil, fmt.Errorf("bad type at %q", t.s)
}

func (p *sparser) parseExpr() (*SExpr, error) {
	if t := p.peek(); t.k == tIdent && (t.s == "forall" || t.s == "exists") {
		return p.parseQuant()
	}
	return p.parseIff()
}

func (p *sparser) parseQuant() (*SExpr, error) {
	q := p.next().s
	e := &SExpr{Op: q}
	// element form: forall x in s :: body   |   forall i, x in s :: body   (slices and maps)
	if p.peek().k == tIdent && (p.peekN(1).s == "in" || (p.peekN(1).s == "," && p.peekN(2).k == tIdent && p.peekN(3).s == "in")) {
		e.Op = q + "in"
		e.Binders = append(e.Binders, Binder{Name: p.next().s})
		if p.peek().s == "," {
			p.next()
			e.Binders = append(e.Binders, Binder{Name: p.next().s})
		}
		p.next() // in
		coll, err := p.parseAdd()
		if err != nil {
			return nil, err
		}
		if err := p.expect("::"); err != nil {
			return nil, err
		}
		body, err := p.parseExpr()
		if err != nil {
			return nil, err
		}
		e.Args = []*SExpr{coll, body}
		return e, nil
	}
	for {
		n := p.next()
		if n.k != tIdent {
			return nil, fmt.Errorf("binder name expected, got %q", n.s)
		}
		te, err := p.parseType()
		if err != nil {
			return nil, err
		}
		e.Binders = append(e.Binders, Binder{n.s, te})
		if p.peek().s == "," {
			p.next()
			continue
		}
		break
	}
	if err := p.expect("::"); err != nil {
		return nil, err
	}
	for p.peek().s == "{" {
		p.next()
		var trig []*SExpr
		for {
			t, err := p.parseIff()
			if err != nil {
				return nil, err
			}
			trig = append(trig, t)
			if p.peek().s == "," {
				p.next()
				continue
			}
			break
		}
		if err := p.expect("}"); err != nil {
			return nil, err
		}
		e.Trig = append(e.Trig, trig)
	}
	body, err := p.parseExpr()
	if err != nil {
		return nil, err
	}
	e.Args = []*SExpr{body}
	return e, nil
}

func (p *sparser) parseIff() (*SExpr, error) {
	l, err := p.parseImp()
	if err != nil {
		return nil, err
	}
	for p.peek().s == "<==>" {
		p.next()
		r, err := p.parseImp()
		if err != nil {
			return nil, err
		}
		l = &SExpr{Op: "bin", Name: "<==>", Args: []*SExpr{l, r}}
	}
	return l, nil
}

func (p *sparser) parseImp() (*SExpr, error) {
	l, err := p.parseOr()
	if err != nil {
		return nil, err
	}
	if p.peek().s == "==>" {
		p.next()
		var r *SExpr
		if t := p.peek(); t.k == tIdent && (t.s == "forall" || t.s == "exists") {
			r, err = p.parseQuant()
		} else {
			r, err = p.parseImp()
		}
		if err != nil {
			return nil, err
		}
		return &SExpr{Op: "bin", Name: "==>", Args: []*SExpr{l, r}}, nil
	}
	return l, nil
}

func (p *sparser) parseOr() (*SExpr, error) {
	l, err := p.parseAnd()
	if err != nil {
		return nil, err
	}
	for p.peek().s == "||" {
		p.next()
		r, err := p.parseAnd()
		if err != nil {
			return nil, err
		}
		l = &SExpr{Op: "bin", Name: "||", Args: []*SExpr{l, r}}
	}
	return l, nil
}

func (p *sparser) parseAnd() (*SExpr, error) {
	l, err := p.parseCmp()
	if err != nil {
		return nil, err
	}
	for p.peek().s == "&&" {
		p.next()
		var r *SExpr
		if t := p.peek(); t.k == tIdent && (t.s == "forall" || t.s == "exists") {
			r, err = p.parseQuant()
		} else {
			r, err = p.parseCmp()
		}
		if err != nil {
			return nil, err
		}
		l = &SExpr{Op: "bin", Name: "&&", Args: []*SExpr{l, r}}
	}
	return l, nil
}

func (p *sparser) parseCmp() (*SExpr, error) {
	l, err := p.parseAdd()
	if err != nil {
		return nil, err
	}
	t := p.peek()
	switch t.s {
	case "==", "!=", "<", "<=", ">", ">=":
		p.next()
		r, err := p.parseAdd()
		if err != nil {
			return nil, err
		}
		return &SExpr{Op: "bin", Name: t.s, Args: []*SExpr{l, r}}, nil
	case "in":
		if t.k == tIdent {
			p.next()
			r, err := p.parseAdd()
			if err != nil {
				return nil, err
			}
			return &SExpr{Op: "bin", Name: "in", Args: []*SExpr{l, r}}, nil
		}
	case "is":
		if t.k == tIdent {
			p.next()
			te, err := p.parseType()
			if err != nil {
				return nil, err
			}
			return &SExpr{Op: "is", Args: []*SExpr{l}, TypeX: te}, nil
		}
	}
	return l, nil
}

func (p *sparser) parseAdd() (*SExpr, error) {
	l, err := p.parseMul()
	if err != nil {
		return nil, err
	}
	for p.peek().s == "+" || p.peek().s == "-" {
		op := p.next().s
		r, err := p.parseMul()
		if err != nil {
			return nil, err
		}
		l = &SExpr{Op: "bin", Name: op, Args: []*SExpr{l, r}}
	}
	return l, nil
}

func (p *sparser) parseMul() (*SExpr, error) {
	l, err := p.parseUnary()
	if err != nil {
		return nil, err
	}
	for p.peek().s == "*" || p.peek().s == "/" || p.peek().s == "%" {
		op := p.next().s
		r, err := p.parseUnary()
		if err != nil {
			return nil, err
		}
		l = &SExpr{Op: "bin", Name: op, Args: []*SExpr{l, r}}
	}
	return l, nil
}

func (p *sparser) parseUnary() (*SExpr, error) {
	if t := p.peek(); t.s == "!" || t.s == "-" {
		p.next()
		x, err := p.parseUnary()
		if err != nil {
			return nil, err
		}
		return &SExpr{Op: "un", Name: t.s, Args: []*SExpr{x}}, nil
	}
	return p.parsePostfix()
}

func (p *sparser) parsePostfix() (*SExpr, error) {
	x, err := p.parsePrimary()
	if err != nil {
		return nil, err
	}
	for {
		switch p.peek().s {
		case ".":
			p.next()
			n := p.next()
			if n.k != tIdent {
				return nil, fmt.Errorf("field name expected after '.', got %q", n.s)
			}
			x = &SExpr{Op: "sel", Name: n.s, Args: []*SExpr{x}}
		case ".(":
			p.next()
			te, err := p.parseType()
			if err != nil {
				return nil, err
			}
			if err := p.expect(")"); err != nil {
				return nil, err
			}
			x = &SExpr{Op: "tassert", Args: []*SExpr{x}, TypeX: te}
		case "[":
			p.next()
			i, err := p.parseExpr()
			if err != nil {
				return nil, err
			}
			if err := p.expect("]"); err != nil {
				return nil, err
			}
			x = &SExpr{Op: "idx", Args: []*SExpr{x, i}}
		case "(":
			p.next()
			var args []*SExpr
			for p.peek().s != ")" {
				if p.peek().k == tEOF {
					return nil, fmt.Errorf("unterminated call")
				}
				a, err := p.parseExpr()
				if err != nil {
					return nil, err
				}
				args = append(args, a)
				if p.peek().s == "," {
					p.next()
				}
			}
			p.next()
			x = &SExpr{Op: "call", Args: append([]*SExpr{x}, args...)}
		default:
			return x, nil
		}
	}
}

func (p *sparser) parsePrimary() (*SExpr, error) {
	t := p.next()
	switch t.k {
	case tNum:
		return &SExpr{Op: "num", Name: t.s}, nil
	case tStr:
		return &SExpr{Op: "str", Name: t.s}, nil
	case tIdent:
		if t.s == "forall" || t.s == "exists" {
			p.pos--
			return p.parseQuant()
		}
		return &SExpr{Op: "id", Name: t.s}, nil
	}
	if t.s == "(" {
		e, err := p.parseExpr()
		if err != nil {
			return nil, err
		}
		if err := p.expect(")"); err != nil {
			return nil, err
		}
		return e, nil
	}
	return nil, fmt.Errorf("unexpected token %q", t.s)
}
