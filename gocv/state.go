package main

// Symbolic state and memory model.

import (
	"fmt"
	"go/types"
	"sort"
	"strings"

	"golang.org/x/tools/go/ssa"
)

const (
	LLocal = iota
	LField
	LElem
	LCell
	LGlobal
)

// Loc is a meta-level address.
type Loc struct {
	Kind  int
	Alloc *ssa.Alloc
	Ref   string     // LField, LCell: object reference term
	S     types.Type // LField: struct type (root object); LCell: cell content type
	Arr   string     // LElem
	Idx   string     // LElem
	G     *ssa.Global
	Root  types.Type // type of the root object's content (local: alloc elem type; elem: element type; global: var type)
	T     types.Type // pointee type
	Lo    int
	Hi    int
	Path  string // dotted field names from the root
	Key   string // LCell: override of the heap key (fields of opaque external structs)
}

// Val is a symbolic value.
type Val struct {
	L      []string // SMT leaves per flattening of the static type
	Loc    *Loc     // non-nil: pointer known at meta level
	Fn     *ssa.Function
	Binds  []*Val
	Tup    []*Val
	Origin string // for function values loaded from a field/global: "field:T.f" or "global:pkg.name"
	Iter   *ssa.Range
}

func scalar(t string) *Val { return &Val{L: []string{t}} }

type deferred struct {
	instr *ssa.Defer
	fn    *Val
	args  []*Val
}

type State struct {
	pc     string
	locals map[*ssa.Alloc][]string
	regs   map[ssa.Value]*Val
	heap   map[string]string
	defers []deferred
	acq    *State // snapshot at the first lock acquisition on this path (two-state `old` of atomic functions)
}

func (s *State) clone() *State {
	n := &State{acq: s.acq, pc: s.pc, locals: make(map[*ssa.Alloc][]string, len(s.locals)), regs: make(map[ssa.Value]*Val, len(s.regs)), heap: make(map[string]string, len(s.heap))}
	for k, v := range s.locals {
		n.locals[k] = v
	}
	for k, v := range s.regs {
		n.regs[k] = v
	}
	for k, v := range s.heap {
		n.heap[k] = v
	}
	n.defers = append([]deferred(nil), s.defers...)
	return n
}

// ---------- heap keys ----------

type heapInfo struct {
	sort Sort
	base string // SMT base name
	kind string // H, A, C, Mdom, Mval, Mlen, K, G, It, X
	leafT types.Type
}

func (e *Engine) regHeap(key string, sort Sort, base string, kind string, lt types.Type) {
	if _, ok := e.heapInfo[key]; !ok {
		e.heapInfo[key] = &heapInfo{sort: sort, base: smtName(base), kind: kind, leafT: lt}
	}
}

// trackWrite records a write to key (write-set discovery). ref is the object written ("" if unknown);
// the write is "fresh-only" for a tracker when the object was allocated after the tracker started.
func (e *Engine) trackWrite(key string, ref string) {
	for _, t := range e.tracks {
		fresh := false
		if ref != "" {
			if n, ok := e.refBirth[ref]; ok && n > t.start {
				fresh = true
			}
		}
		if old, ok := t.keys[key]; ok {
			t.keys[key] = old && fresh
		} else {
			t.keys[key] = fresh
		}
		if !fresh {
			if ref == "" {
				t.anyRef[key] = true
			} else {
				if t.refs[key] == nil {
					t.refs[key] = map[string]bool{}
				}
				t.refs[key][ref] = true
			}
		}
	}
}

type track struct {
	start  int
	keys   map[string]bool // key -> all writes were to fresh objects
	allocs map[*ssa.Alloc]bool
	locks  map[string]bool
	blocking bool
	refs   map[string]map[string]bool // key -> object references written (non-fresh objects)
	anyRef map[string]bool            // key -> written through an unknown reference (whole array may change)
	seq0   int                        // number of SMT declarations when the tracker started
}

func (e *Engine) pushTrack() *track {
	t := &track{start: e.nalloc, keys: map[string]bool{}, allocs: map[*ssa.Alloc]bool{}, locks: map[string]bool{}, refs: map[string]map[string]bool{}, anyRef: map[string]bool{}, seq0: len(e.c.order)}
	e.tracks = append(e.tracks, t)
	return t
}

func (e *Engine) popTrack() {
	e.tracks = e.tracks[:len(e.tracks)-1]
}

// heapGet returns the current term for key (initial symbol if never written).
func (e *Engine) heapGet(st *State, key string) string {
	if t, ok := st.heap[key]; ok {
		return t
	}
	hi := e.heapInfo[key]
	if hi == nil {
		panic("unregistered heap key " + key)
	}
	if hi.kind == "K" {
		// the current goroutine holds no lock on entry (unless declared `locks held`)
		return "((as const (Array Int Int)) 0)"
	}
	if strings.HasPrefix(key, "X|condflag|") {
		return "false"
	}
	if key == "X|mine" {
		// no object has been allocated by this activation yet
		return "((as const (Array Int Bool)) false)"
	}
	return e.c.constant(hi.base+"!0", hi.sort)
}

func (e *Engine) heapSet(st *State, key string, term string) {
	hi := e.heapInfo[key]
	st.heap[key] = e.c.define(hi.base, hi.sort, term)
}

// heapWrite is heapSet plus write tracking.
func (e *Engine) heapWrite(st *State, key string, term string, ref string) {
	e.heapSet(st, key, term)
	e.trackWrite(key, ref)
}

func (e *Engine) heapHavoc(st *State, key string) {
	hi := e.heapInfo[key]
	if hi == nil {
		panic("havoc of unregistered key " + key)
	}
	st.heap[key] = e.c.fresh(hi.base, hi.sort)
	e.trackWrite(key, "")
}

// heapHavocFresh havocs key but keeps the contents of objects allocated up to allocBefore.
func (e *Engine) heapHavocFresh(st *State, key string, allocBefore string) {
	hi := e.heapInfo[key]
	old := e.heapGet(st, key)
	n := e.c.fresh(hi.base, hi.sort)
	st.heap[key] = n
	if strings.HasPrefix(hi.sort, "(Array Int ") {
		e.assume(st, fmt.Sprintf("(forall ((r!q Int)) (! (=> (<= r!q %s) (= (select %s r!q) (select %s r!q))) :pattern ((select %s r!q)) :pattern ((select %s r!q))))", allocBefore, n, old, n, old))
	}
	// for enclosing trackers this is still a write to fresh objects only
	for _, t := range e.tracks {
		if _, ok := t.keys[key]; !ok {
			t.keys[key] = true
		}
	}
}

// key constructors (register on the fly)

func (e *Engine) keyField(s types.Type, i int) string {
	k := fmt.Sprintf("H|%s|%d", typeKey(s), i)
	if _, ok := e.heapInfo[k]; !ok {
		l := e.fl.leaves(s)[i]
		e.regHeap(k, arrSort(SInt, l.Sort), "H_"+shortTypeName(s)+"_"+leafSuffix(l), "H", l.T)
	}
	return k
}

// keyElemOf: the content array of slice/array `arr`: arrays stored in fields declared immutable live in a separate
// heap that lock acquisitions never havoc (their contents are a snapshot taken when the field was written).
func (e *Engine) keyElemOf(t types.Type, i int, arr string) string {
	if e.immArr[arr] {
		k := fmt.Sprintf("Aimm|%s|%d", typeKey(t), i)
		if _, ok := e.heapInfo[k]; !ok {
			l := e.fl.leaves(t)[i]
			e.regHeap(k, arrSort(SInt, arrSort(SInt, l.Sort)), "Aimm_"+shortTypeName(t)+"_"+leafSuffix(l), "A", l.T)
		}
		return k
	}
	return e.keyElem(t, i)
}

func (e *Engine) keyElem(t types.Type, i int) string {
	k := fmt.Sprintf("A|%s|%d", typeKey(t), i)
	if _, ok := e.heapInfo[k]; !ok {
		l := e.fl.leaves(t)[i]
		e.regHeap(k, arrSort(SInt, arrSort(SInt, l.Sort)), "A_"+shortTypeName(t)+"_"+leafSuffix(l), "A", l.T)
	}
	return k
}

func (e *Engine) keyCellLoc(loc *Loc, i int) string {
	if loc.Key == "" {
		return e.keyCell(loc.S, i)
	}
	k := fmt.Sprintf("C|%s|%d", loc.Key, i)
	if _, ok := e.heapInfo[k]; !ok {
		l := e.fl.leaves(loc.T)[i]
		e.regHeap(k, arrSort(SInt, l.Sort), "F_"+smtName(loc.Key)+"_"+leafSuffix(l), "C", l.T)
	}
	return k
}

func (e *Engine) keyCell(t types.Type, i int) string {
	k := fmt.Sprintf("C|%s|%d", typeKey(t), i)
	if _, ok := e.heapInfo[k]; !ok {
		l := e.fl.leaves(t)[i]
		e.regHeap(k, arrSort(SInt, l.Sort), "C_"+shortTypeName(t)+"_"+leafSuffix(l), "C", l.T)
	}
	return k
}

func (e *Engine) keyGlobal(g *ssa.Global, i int) string {
	k := fmt.Sprintf("G|%s.%s|%d", g.Pkg.Pkg.Path(), g.Name(), i)
	if _, ok := e.heapInfo[k]; !ok {
		t := g.Type().(*types.Pointer).Elem()
		l := e.fl.leaves(t)[i]
		e.regHeap(k, l.Sort, "G_"+g.Pkg.Pkg.Name()+"_"+g.Name()+"_"+leafSuffix(l), "G", l.T)
	}
	return k
}

func (e *Engine) mapSorts(m *types.Map) (ks Sort, vl []Leaf) {
	kl := e.fl.leaves(m.Key())
	if len(kl) != 1 {
		panic("map key with != 1 leaf: " + m.String())
	}
	return kl[0].Sort, e.fl.leaves(m.Elem())
}

func (e *Engine) keyMapDom(m *types.Map) string {
	k := "Mdom|" + typeKey(m)
	if _, ok := e.heapInfo[k]; !ok {
		ks, _ := e.mapSorts(m)
		e.regHeap(k, arrSort(SInt, arrSort(ks, SBool)), "Mdom_"+shortTypeName(m), "Mdom", nil)
	}
	return k
}

func (e *Engine) keyMapLen(m *types.Map) string {
	k := "Mlen|" + typeKey(m)
	if _, ok := e.heapInfo[k]; !ok {
		e.regHeap(k, arrSort(SInt, SInt), "Mlen_"+shortTypeName(m), "Mlen", nil)
	}
	return k
}

func (e *Engine) keyMapVal(m *types.Map, i int) string {
	k := fmt.Sprintf("Mval|%s|%d", typeKey(m), i)
	if _, ok := e.heapInfo[k]; !ok {
		ks, vl := e.mapSorts(m)
		e.regHeap(k, arrSort(SInt, arrSort(ks, vl[i].Sort)), "Mval_"+shortTypeName(m)+"_"+leafSuffix(vl[i]), "Mval", vl[i].T)
	}
	return k
}

func (e *Engine) keyLock(s types.Type, path string) string {
	k := fmt.Sprintf("K|%s|%s", typeKey(s), path)
	if _, ok := e.heapInfo[k]; !ok {
		e.regHeap(k, arrSort(SInt, SInt), "K_"+shortTypeName(s)+"_"+path, "K", nil)
	}
	return k
}

func (e *Engine) keyChanClosed() string {
	k := "X|chanclosed"
	if _, ok := e.heapInfo[k]; !ok {
		e.regHeap(k, arrSort(SInt, SBool), "chanclosed", "X", nil)
	}
	return k
}

func (e *Engine) keyAlloc() string {
	k := "X|alloc"
	if _, ok := e.heapInfo[k]; !ok {
		e.regHeap(k, SInt, "alloc", "X", nil)
	}
	return k
}

// ---------- assumptions ----------

func (e *Engine) assume(st *State, cond string) {
	if cond == "true" || cond == "" || e.c.inQuant > 0 {
		return
	}
	st.pc = e.c.defineAlways("pc", SBool, and(st.pc, cond))
}

// typeAssume adds the range/allocation assumptions for a freshly read value of Go type t.
func (e *Engine) typeAssume(st *State, t types.Type, leaves []string) {
	e.typeAssumeAlloc(st, t, leaves, e.heapGet(st, e.keyAlloc()))
}

// typeAssumeAlloc: as typeAssume, with references bounded by the given allocation counter (a value read from a
// heap component that has not been written since function entry is bounded by the counter at entry).
func (e *Engine) typeAssumeAlloc(st *State, t types.Type, leaves []string, allocTerm string) {
	ls := e.fl.leaves(t)
	var cs []string
	for i, l := range ls {
		if i >= len(leaves) {
			break
		}
		x := leaves[i]
		if isNumLit(x) {
			continue
		}
		if l.Part == "arr" && i+2 < len(ls) && i+2 < len(leaves) && ls[i+1].Part == "off" && ls[i+2].Part == "len" {
			// a nil slice has no elements
			cs = append(cs, implies(eq(x, "0"), and(eq(leaves[i+1], "0"), eq(leaves[i+2], "0"))))
		}
		switch l.Sort {
		case SInt:
			if l.Part == "off" || l.Part == "len" {
				cs = append(cs, "(<= 0 "+x+")", "(<= "+x+" 9223372036854775807)")
				continue
			}
			if lo, hi, ok := intRange(l.T); ok && l.Part == "" {
				cs = append(cs, "(<= "+lo+" "+x+")", "(<= "+x+" "+hi+")")
				continue
			}
			switch pt := l.T.Underlying().(type) {
			case *types.Pointer, *types.Map, *types.Chan, *types.Slice:
				cs = append(cs, "(<= 0 "+x+")", "(<= "+x+" "+allocTerm+")")
				if p, ok := pt.(*types.Pointer); ok {
					if k := e.keyIsA(p.Elem()); k != "" {
						// type safety: a non-nil *T points to an allocated T
						cs = append(cs, implies(not(eq(x, "0")), sel(e.heapGet(st, k), x)))
					}
				}
			case *types.Interface, *types.Signature:
				cs = append(cs, "(<= 0 "+x+")")
			}
		}
	}
	if len(cs) > 0 {
		e.assume(st, and(cs...))
	}
}

// freshVal makes a fresh symbolic value of type t with type assumptions.
func (e *Engine) freshVal(st *State, hint string, t types.Type) *Val {
	if tup, ok := t.(*types.Tuple); ok {
		v := &Val{}
		for i := 0; i < tup.Len(); i++ {
			v.Tup = append(v.Tup, e.freshVal(st, fmt.Sprintf("%s.%d", hint, i), tup.At(i).Type()))
		}
		return v
	}
	ls := e.fl.leaves(t)
	v := &Val{}
	for _, l := range ls {
		v.L = append(v.L, e.c.fresh(hint+leafSuffix(l), l.Sort))
	}
	e.typeAssume(st, t, v.L)
	return v
}

// newRef allocates a fresh reference.
func (e *Engine) newRef(st *State, hint string) string {
	k := e.keyAlloc()
	cur := e.heapGet(st, k)
	r := e.c.defineAlways(hint, SInt, "(+ "+cur+" 1)")
	st.heap[k] = r
	e.nalloc++
	e.refBirth[r] = e.nalloc
	mk := e.keyMine()
	e.heapWrite(st, mk, store(e.heapGet(st, mk), r, "true"), r)
	return r
}

// ---------- load / store ----------

func (e *Engine) loadLoc(st *State, loc *Loc) []string {
	out := make([]string, 0, loc.Hi-loc.Lo)
	switch loc.Kind {
	case LLocal:
		cur, ok := st.locals[loc.Alloc]
		if !ok {
			cur = e.fl.zero(e.c, loc.Root)
			st.locals[loc.Alloc] = cur
		}
		if loc.Hi > len(cur) {
			// the local holds a value of an externally defined struct type kept as one opaque leaf: its fields are
			// not modelled; over-approximate the read by an arbitrary value of the field's type
			e.outsideSubset("field of an opaque external struct value")
			return e.freshVal(st, "opq", loc.T).L
		}
		out = append(out, cur[loc.Lo:loc.Hi]...)
		return out
	case LField:
		for i := loc.Lo; i < loc.Hi; i++ {
			out = append(out, sel(e.heapGet(st, e.keyField(loc.S, i)), loc.Ref))
		}
	case LCell:
		for i := loc.Lo; i < loc.Hi; i++ {
			out = append(out, sel(e.heapGet(st, e.keyCellLoc(loc, i)), loc.Ref))
		}
	case LElem:
		for i := loc.Lo; i < loc.Hi; i++ {
			out = append(out, sel(sel(e.heapGet(st, e.keyElemOf(loc.Root, i, loc.Arr)), loc.Arr), loc.Idx))
		}
	case LGlobal:
		for i := loc.Lo; i < loc.Hi; i++ {
			out = append(out, e.heapGet(st, e.keyGlobal(loc.G, i)))
		}
	}
	// name loaded leaves and add type assumptions
	for i := range out {
		out[i] = e.c.define("ld", e.fl.leaves(loc.T)[i].Sort, out[i])
	}
	e.typeAssume(st, loc.T, out)
	// a component never written since entry holds only references that existed at entry
	fromEntry := loc.Kind != LLocal
	for i := loc.Lo; i < loc.Hi && fromEntry; i++ {
		var k string
		switch loc.Kind {
		case LField:
			k = e.keyField(loc.S, i)
		case LCell:
			k = e.keyCellLoc(loc, i)
		case LElem:
			k = e.keyElemOf(loc.Root, i, loc.Arr)
		case LGlobal:
			k = e.keyGlobal(loc.G, i)
		}
		if _, written := st.heap[k]; written {
			fromEntry = false
		}
	}
	if fromEntry {
		if _, moved := st.heap[e.keyAlloc()]; moved {
			e.typeAssumeAlloc(st, loc.T, out, e.heapGet(&State{heap: map[string]string{}}, e.keyAlloc()))
		}
	}
	return out
}

func (e *Engine) storeLoc(st *State, loc *Loc, leaves []string) {
	if len(leaves) != loc.Hi-loc.Lo {
		panic(fmt.Sprintf("storeLoc: %d leaves for range [%d,%d) path %s type %s", len(leaves), loc.Lo, loc.Hi, loc.Path, loc.T))
	}
	switch loc.Kind {
	case LLocal:
		cur, ok := st.locals[loc.Alloc]
		if !ok {
			cur = e.fl.zero(e.c, loc.Root)
		}
		n := append([]string(nil), cur...)
		copy(n[loc.Lo:loc.Hi], leaves)
		st.locals[loc.Alloc] = n
		for _, t := range e.tracks {
			t.allocs[loc.Alloc] = true
		}
	case LField:
		for i := loc.Lo; i < loc.Hi; i++ {
			k := e.keyField(loc.S, i)
			e.heapWrite(st, k, store(e.heapGet(st, k), loc.Ref, leaves[i-loc.Lo]), loc.Ref)
		}
	case LCell:
		for i := loc.Lo; i < loc.Hi; i++ {
			k := e.keyCellLoc(loc, i)
			e.heapWrite(st, k, store(e.heapGet(st, k), loc.Ref, leaves[i-loc.Lo]), loc.Ref)
		}
	case LElem:
		for i := loc.Lo; i < loc.Hi; i++ {
			if e.immArr[loc.Arr] {
				e.outsideSubset("write to the contents of a slice stored in an immutable field")
			}
			k := e.keyElem(loc.Root, i)
			h := e.heapGet(st, k)
			e.heapWrite(st, k, store(h, loc.Arr, store(sel(h, loc.Arr), loc.Idx, leaves[i-loc.Lo])), loc.Arr)
		}
	case LGlobal:
		for i := loc.Lo; i < loc.Hi; i++ {
			k := e.keyGlobal(loc.G, i)
			e.heapWrite(st, k, leaves[i-loc.Lo], "")
		}
	}
}

// ---------- maps ----------

func (e *Engine) mapDom(st *State, m *types.Map, mref string) string {
	return sel(e.heapGet(st, e.keyMapDom(m)), mref)
}
func (e *Engine) mapLen(st *State, m *types.Map, mref string) string {
	return sel(e.heapGet(st, e.keyMapLen(m)), mref)
}

// mapLookup returns (value leaves, ok term).
func (e *Engine) mapLookup(st *State, m *types.Map, mref string, key string) ([]string, string) {
	ok := e.c.define("mapok", SBool, sel(e.mapDom(st, m, mref), key))
	_, vl := e.mapSorts(m)
	zero := e.fl.zero(e.c, m.Elem())
	var out []string
	for i := range vl {
		v := sel(sel(e.heapGet(st, e.keyMapVal(m, i)), mref), key)
		out = append(out, e.c.define("mapv", vl[i].Sort, ite(ok, v, zero[i])))
	}
	// finite-map facts at this key
	ln := e.mapLen(st, m, mref)
	e.assume(st, and(implies(ok, "(>= "+ln+" 1)"), "(>= "+ln+" 0)", implies(eq(mref, "0"), not(ok))))
	e.typeAssume(st, m.Elem(), out)
	if f, counted := e.counted[typeKey(m)]; counted {
		// membership lemma: a present key contributes to the count of its value
		e.assume(st, implies(ok, "(>= "+app(f, e.mapDom(st, m, mref), sel(e.heapGet(st, e.keyMapVal(m, 0)), mref), out[0])+" 1)"))
	}
	return out, ok
}

func (e *Engine) mapUpdate(st *State, m *types.Map, mref string, key string, val []string) {
	kd, kl := e.keyMapDom(m), e.keyMapLen(m)
	dom := e.heapGet(st, kd)
	ln := e.heapGet(st, kl)
	had := sel(sel(dom, mref), key)
	var cd0, ca0 string
	_, counted := e.counted[typeKey(m)]
	if counted {
		cd0 = sel(dom, mref)
		ca0 = sel(e.heapGet(st, e.keyMapVal(m, 0)), mref)
	}
	defer func() {
		if counted {
			e.countLemmaUpdate(st, m, cd0, ca0, e.mapDom(st, m, mref), sel(e.heapGet(st, e.keyMapVal(m, 0)), mref), key, val[0])
		}
	}()
	e.heapWrite(st, kl, store(ln, mref, ite(had, sel(ln, mref), "(+ "+sel(ln, mref)+" 1)")), mref)
	e.heapWrite(st, kd, store(dom, mref, store(sel(dom, mref), key, "true")), mref)
	for i := range val {
		kv := e.keyMapVal(m, i)
		h := e.heapGet(st, kv)
		e.heapWrite(st, kv, store(h, mref, store(sel(h, mref), key, val[i])), mref)
	}
}

func (e *Engine) mapDelete(st *State, m *types.Map, mref string, key string) {
	kd, kl := e.keyMapDom(m), e.keyMapLen(m)
	dom := e.heapGet(st, kd)
	ln := e.heapGet(st, kl)
	had := sel(sel(dom, mref), key)
	if _, counted := e.counted[typeKey(m)]; counted {
		cd0 := sel(dom, mref)
		ca0 := sel(e.heapGet(st, e.keyMapVal(m, 0)), mref)
		defer func() {
			e.countLemmaUpdate(st, m, cd0, ca0, e.mapDom(st, m, mref), ca0, key, "")
		}()
	}
	e.heapWrite(st, kl, store(ln, mref, ite(had, "(- "+sel(ln, mref)+" 1)", sel(ln, mref))), mref)
	e.heapWrite(st, kd, store(dom, mref, store(sel(dom, mref), key, "false")), mref)
}

// mapLenFacts assumes the finite-map link between len and dom when len is observed.
func (e *Engine) mapLenFacts(st *State, m *types.Map, mref string) string {
	ln := e.c.define("maplen", SInt, e.mapLen(st, m, mref))
	ks, _ := e.mapSorts(m)
	dom := e.mapDom(st, m, mref)
	e.assume(st, and("(>= "+ln+" 0)",
		implies(eq(mref, "0"), eq(ln, "0")),
		fmt.Sprintf("(=> (= %s 0) (forall ((k!q %s)) (! (not (select %s k!q)) :pattern ((select %s k!q)))))", ln, ks, dom, dom)))
	return ln
}

// ---------- merging ----------

// mergeStates merges incoming states (each with its own pc) into one.
func (e *Engine) mergeStates(ins []*State) *State {
	if len(ins) == 1 {
		return ins[0].clone()
	}
	out := &State{locals: map[*ssa.Alloc][]string{}, regs: map[ssa.Value]*Val{}, heap: map[string]string{}}
	pcs := make([]string, len(ins))
	for i, s := range ins {
		pcs[i] = s.pc
		if out.acq == nil {
			out.acq = s.acq
		}
	}
	out.pc = e.c.defineAlways("pc", SBool, or(pcs...))
	mergeTerm := func(ts []string, sort Sort, hint string) string {
		same := true
		for _, t := range ts[1:] {
			if t != ts[0] {
				same = false
				break
			}
		}
		if same {
			return ts[0]
		}
		body := ts[len(ts)-1]
		for i := len(ts) - 2; i >= 0; i-- {
			if ts[i] == body {
				continue
			}
			body = ite(pcs[i], ts[i], body)
		}
		// a constant with a defining equation (not a macro): merged values may occur in quantifier patterns
		return e.c.defineEq(hint, sort, body)
	}
	// heap
	keys := map[string]bool{}
	for _, s := range ins {
		for k := range s.heap {
			keys[k] = true
		}
	}
	ks := make([]string, 0, len(keys))
	for k := range keys {
		ks = append(ks, k)
	}
	sort.Strings(ks)
	for _, k := range ks {
		ts := make([]string, len(ins))
		for i, s := range ins {
			ts[i] = e.heapGet(s, k)
		}
		hi := e.heapInfo[k]
		out.heap[k] = mergeTerm(ts, hi.sort, hi.base)
	}
	// locals
	allocs := map[*ssa.Alloc]bool{}
	for _, s := range ins {
		for a := range s.locals {
			allocs[a] = true
		}
	}
	for a := range allocs {
		et := a.Type().(*types.Pointer).Elem()
		ls := e.fl.leaves(et)
		var cols [][]string
		for _, s := range ins {
			cur, ok := s.locals[a]
			if !ok {
				cur = e.fl.zero(e.c, et)
			}
			cols = append(cols, cur)
		}
		merged := make([]string, len(ls))
		for j := range ls {
			ts := make([]string, len(ins))
			for i := range ins {
				ts[i] = cols[i][j]
			}
			merged[j] = mergeTerm(ts, ls[j].Sort, "l_"+a.Comment)
		}
		out.locals[a] = merged
	}
	// regs: keep those present in all with identical value, else merge leaves
	for r, v0 := range ins[0].regs {
		vals := []*Val{v0}
		ok := true
		for _, s := range ins[1:] {
			v, has := s.regs[r]
			if !has {
				ok = false
				break
			}
			vals = append(vals, v)
		}
		if !ok {
			continue
		}
		out.regs[r] = e.mergeVals(vals, mergeTerm, r.Type())
	}
	// defers: must agree
	out.defers = append([]deferred(nil), ins[0].defers...)
	for _, s := range ins[1:] {
		if len(s.defers) != len(out.defers) {
			e.outsideSubset("join with different defer stacks")
			if len(s.defers) > len(out.defers) {
				out.defers = append([]deferred(nil), s.defers...)
			}
		}
	}
	return out
}

func (e *Engine) mergeVals(vals []*Val, mergeTerm func([]string, Sort, string) string, t types.Type) *Val {
	same := true
	for _, v := range vals[1:] {
		if v != vals[0] {
			same = false
		}
	}
	if same {
		return vals[0]
	}
	v0 := vals[0]
	if v0.Tup != nil {
		out := &Val{}
		tt, _ := t.(*types.Tuple)
		for i := range v0.Tup {
			var sub []*Val
			for _, v := range vals {
				if i >= len(v.Tup) {
					return v0
				}
				sub = append(sub, v.Tup[i])
			}
			var et types.Type
			if tt != nil {
				et = tt.At(i).Type()
			}
			out.Tup = append(out.Tup, e.mergeVals(sub, mergeTerm, et))
		}
		return out
	}
	// meta-level parts must agree; otherwise keep first (registers defined once normally)
	out := &Val{Loc: v0.Loc, Fn: v0.Fn, Binds: v0.Binds, Origin: v0.Origin, Iter: v0.Iter}
	if t == nil || len(v0.L) == 0 {
		out.L = v0.L
		return out
	}
	ls := e.fl.leaves(t)
	if len(ls) != len(v0.L) {
		out.L = v0.L
		return out
	}
	for j := range v0.L {
		ts := make([]string, len(vals))
		for i, v := range vals {
			if j >= len(v.L) {
				out.L = v0.L
				return out
			}
			ts[i] = v.L[j]
		}
		out.L = append(out.L, mergeTerm(ts, ls[j].Sort, "r"))
	}
	return out
}

func leafPathIndex(ls []Leaf, path string) (int, int) {
	lo, hi := -1, -1
	for i, l := range ls {
		if l.Path == path || strings.HasPrefix(l.Path, path+".") {
			if lo < 0 {
				lo = i
			}
			hi = i + 1
		}
	}
	return lo, hi
}

// ---------- counted maps ----------

// countTerm returns count(m, v): the number of keys of map m whose value is v (uninterpreted, with update lemmas).
func (e *Engine) countTerm(st *State, m *types.Map, mref string, v string) string {
	f := e.countFun(m)
	dom := e.mapDom(st, m, mref)
	val := sel(e.heapGet(st, e.keyMapVal(m, 0)), mref)
	t := app(f, dom, val, v)
	ln := e.mapLen(st, m, mref)
	// finite maps (T4): a count is bounded by the number of keys, which fits in an int
	e.assume(st, and("(>= "+t+" 0)", "(<= "+t+" "+ln+")", "(<= "+ln+" 9223372036854775807)"))
	return t
}

func (e *Engine) countFun(m *types.Map) string {
	k := typeKey(m)
	if f, ok := e.counted[k]; ok {
		return f
	}
	ks, vl := e.mapSorts(m)
	if len(vl) != 1 {
		panic("count() needs a map with scalar values")
	}
	f := e.c.fun("cnt_"+shortTypeName(m), []Sort{arrSort(ks, SBool), arrSort(ks, vl[0].Sort), vl[0].Sort}, SInt)
	e.counted[k] = f
	return f
}

func (e *Engine) countLemmaUpdate(st *State, m *types.Map, d0, a0, d1, a1, key, nv string) {
	f, ok := e.counted[typeKey(m)]
	if !ok {
		return
	}
	_, vl := e.mapSorts(m)
	vs := vl[0].Sort
	had := fmt.Sprintf("(ite (and (select %s %s) (= (select %s %s) s!q)) 1 0)", d0, key, a0, key)
	add := "0"
	if nv != "" {
		add = fmt.Sprintf("(ite (= %s s!q) 1 0)", nv)
	}
	e.assume(st, fmt.Sprintf("(forall ((s!q %s)) (! (and (= (%s %s %s s!q) (+ (- (%s %s %s s!q) %s) %s)) (>= (%s %s %s s!q) 0)) :pattern ((%s %s %s s!q))))",
		vs, f, d1, a1, f, d0, a0, had, add, f, d0, a0, f, d1, a1))
}

// keyIsA: the allocation set of a tracked struct type ("" if the type is not tracked).
func (e *Engine) keyIsA(t types.Type) string {
	n, ok := t.(*types.Named)
	if !ok || n.Obj().Pkg() == nil {
		return ""
	}
	if !e.w.spec.Tracked[n.Obj().Pkg().Path()+"."+n.Obj().Name()] {
		return ""
	}
	k := "X|isA|" + typeKey(t)
	if _, ok := e.heapInfo[k]; !ok {
		e.regHeap(k, arrSort(SInt, SBool), "isA_"+shortTypeName(t), "X", nil)
	}
	return k
}

// loadLocQuiet reads a location without naming or type assumptions (for obligations about the current value).
func (e *Engine) loadLocQuiet(st *State, loc *Loc) []string {
	tmp := &State{pc: "true", heap: st.heap, locals: st.locals, regs: st.regs}
	save := e.c.inQuant
	e.c.inQuant++
	out := e.loadLoc(tmp, loc)
	e.c.inQuant = save
	return out
}

// keyMine: the set of objects allocated by the current activation (not yet shared with other goroutines).
func (e *Engine) keyMine() string {
	k := "X|mine"
	if _, ok := e.heapInfo[k]; !ok {
		e.regHeap(k, arrSort(SInt, SBool), "mine", "X", nil)
	}
	return k
}

// stableTerm reports whether term only depends on symbols declared before seq0 (so it denotes the same value in
// the state before a loop/discovery run started).
func (e *Engine) stableTerm(term string, seq0 int) bool {
	seen := map[string]bool{}
	var stack []string
	stack = append(stack, e.c.depsOf(term)...)
	for len(stack) > 0 {
		n := stack[len(stack)-1]
		stack = stack[:len(stack)-1]
		if seen[n] {
			continue
		}
		seen[n] = true
		d := e.c.decls[n]
		if d == nil {
			continue
		}
		if d.seq >= seq0 && d.body == "" && !strings.HasPrefix(d.name, "sort:") {
			return false // declared (havocked / fresh) during the run: not a pre-state value
		}
		stack = append(stack, d.deps...)
	}
	return true
}

// heapHavocRows havocs only the rows (objects) refs of an array-sorted heap key.
func (e *Engine) heapHavocRows(st *State, key string, refs []string) bool {
	hi := e.heapInfo[key]
	if !strings.HasPrefix(hi.sort, "(Array Int ") {
		return false
	}
	row := strings.TrimSuffix(strings.TrimPrefix(hi.sort, "(Array Int "), ")")
	cur := e.heapGet(st, key)
	for _, r := range refs {
		cur = store(cur, r, e.c.fresh(hi.base+"_row", row))
	}
	e.heapSet(st, key, cur)
	e.trackWrite(key, "")
	return true
}
