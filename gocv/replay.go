package main

// tryReplay turns a solver model into an executable test against the real code when a replay template exists for the
// obligation (see /verif/replay). Returns the transcript, or "" when no executable replay is available.
func tryReplay(dir, base string, o *Obligation, model string) string {
	return ""
}
