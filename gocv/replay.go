package main

// Replay of solver counterexamples on the real code.
//
// Scope (stated in DESIGN.md): obligations of functions whose inputs are self-contained values - every parameter (and
// the receiver) is an integer, boolean, float64 or string (strings only in modules verified with the string theory),
// or a non-nil pointer to a struct made of such fields (mutex fields are left zero) - and which read no package-level
// state. For those, the values of the inputs are read back from the solver with (get-value ...), a test is generated
// that builds the inputs, calls the real function through `go test -overlay` (nothing is written to the repository)
// and, for a postcondition, evaluates the violated clause on the real result with exact (math/big) integer
// arithmetic; for a no-panic obligation the test reports the panic. Anything outside this scope keeps the model in
// the replay file and the VIOLATION line ends with no-failing-input-found.

import (
	"sort"
	"encoding/json"
	"fmt"
	"go/types"
	"math"
	"os"
	"os/exec"
	"path/filepath"
	"regexp"
	"strconv"
	"strings"
	"time"

	"golang.org/x/tools/go/ssa"
)

type replayField struct {
	Name string
	T    types.Type
	Term string
}

type replayInput struct {
	Name   string
	T      types.Type
	Term   string        // scalar parameter
	Fields []replayField // pointer to a flat struct
	Struct *types.Named
}

// replayCtx is attached to the obligations of a function that is eligible for replay.
type replayCtx struct {
	Fn      *ssa.Function
	Inputs  []replayInput
	ModDir  string
	PkgPath string
	Imports map[string]string // alias -> path (from the contract file)
	Results int
	IsStr   bool
	Preds   map[string]*PredDef
	Globals []replayField // package-level *T flag variables the function reads: the test assigns *name
	Partial bool // some struct fields of the inputs are not reconstructed (left zero)
}

func scalarKind(t types.Type, strOK bool) bool {
	b, ok := t.Underlying().(*types.Basic)
	if !ok {
		return false
	}
	switch {
	case b.Info()&types.IsInteger != 0, b.Info()&types.IsBoolean != 0:
		return true
	case b.Kind() == types.Float64:
		return true
	case b.Kind() == types.String:
		return strOK
	}
	return false
}

// replaySetup decides eligibility and records the SMT terms of the inputs in the entry state.
func (e *Engine) replaySetup(fx *FnExec, st *State, m ModuleCfg) *replayCtx {
	fn := fx.fn
	if fn.Parent() != nil || fn.Pkg == nil || fn.Synthetic != "" {
		return nil
	}
	// package-level state: only variables of type pointer-to-scalar defined in this package (flag values); the test
	// stores the model's value through the pointer before the call
	globals := map[*ssa.Global]bool{}
	for _, b := range fn.Blocks {
		for _, in := range b.Instrs {
			for _, op := range in.Operands(nil) {
				if op != nil && *op != nil {
					if g, isG := (*op).(*ssa.Global); isG {
						vt := g.Type().(*types.Pointer).Elem()
						pt, ok := vt.Underlying().(*types.Pointer)
						if !ok || g.Pkg != fn.Pkg || !scalarKind(pt.Elem(), m.StrTheory) {
							return nil
						}
						globals[g] = true
					}
				}
			}
		}
	}
	var gins []replayField
	for g := range globals {
		vt := g.Type().(*types.Pointer).Elem()
		if len(e.fl.leaves(vt)) != 1 {
			return nil
		}
		// raw terms over the entry heap (no named aliases: the query only declares what it uses)
		ptr := e.heapGet(st, e.keyGlobal(g, 0))
		cell := fx.ptrLocNoCheck(&Val{L: []string{ptr}}, vt)
		if cell.Kind != LCell || cell.Hi-cell.Lo != 1 {
			return nil
		}
		val := sel(e.heapGet(st, e.keyCellLoc(cell, cell.Lo)), ptr)
		gins = append(gins, replayField{Name: g.Name(), T: vt.Underlying().(*types.Pointer).Elem(), Term: val})
	}
	sort.Slice(gins, func(i, j int) bool { return gins[i].Name < gins[j].Name })
	rc := &replayCtx{Globals: gins, Preds: e.w.spec.Preds, Fn: fn, ModDir: m.Dir, PkgPath: fn.Pkg.Pkg.Path(), IsStr: m.StrTheory, Imports: e.w.spec.Imports[fn.Pkg.Pkg.Path()]}
	rc.Results = fn.Signature.Results().Len()
	for i, p := range fn.Params {
		if i >= len(fx.args) || fx.args[i] == nil {
			return nil
		}
		name := p.Name()
		if name == "" || name == "_" {
			name = fmt.Sprintf("arg%d", i)
		}
		in := replayInput{Name: name, T: p.Type()}
		if scalarKind(p.Type(), m.StrTheory) && len(fx.args[i].L) == 1 {
			in.Term = fx.args[i].L[0]
			rc.Inputs = append(rc.Inputs, in)
			continue
		}
		pt, ok := p.Type().Underlying().(*types.Pointer)
		if !ok || len(fx.args[i].L) != 1 {
			return nil
		}
		n, ok := pt.Elem().(*types.Named)
		if !ok {
			return nil
		}
		su, ok := n.Underlying().(*types.Struct)
		if !ok {
			return nil
		}
		in.Struct = n
		leaf := 0
		for f := 0; f < su.NumFields(); f++ {
			ft := su.Field(f).Type()
			nl := len(e.fl.leaves(ft))
			if isLockType(ft) {
				leaf += nl
				continue
			}
			if !scalarKind(ft, m.StrTheory) || nl != 1 {
				// left at its zero value: fine as long as the function does not depend on it (a panic of the replay
				// is then not counted, see tryReplay)
				rc.Partial = true
				leaf += nl
				continue
			}
			term := sel(e.heapGet(st, e.keyField(n, leaf)), fx.args[i].L[0])
			in.Fields = append(in.Fields, replayField{Name: su.Field(f).Name(), T: ft, Term: term})
			leaf += nl
		}
		in.Term = fx.args[i].L[0]
		rc.Inputs = append(rc.Inputs, in)
	}
	if rc.Partial {
		// partly reconstructed inputs are faithful only if the function never touches the parts left out and does
		// not hand the object to other in-repo code
		for _, in := range rc.Inputs {
			if in.Struct == nil {
				continue
			}
			su := in.Struct.Underlying().(*types.Struct)
			skipped := map[int]bool{}
			for f := 0; f < su.NumFields(); f++ {
				if !isLockType(su.Field(f).Type()) && !scalarKind(su.Field(f).Type(), m.StrTheory) {
					skipped[f] = true
				}
			}
			for _, b := range fn.Blocks {
				for _, ins := range b.Instrs {
					switch x := ins.(type) {
					case *ssa.FieldAddr:
						if pt, ok := x.X.Type().Underlying().(*types.Pointer); ok && types.Identical(pt.Elem(), in.Struct) && skipped[x.Field] {
							return nil
						}
					case *ssa.Field:
						if types.Identical(x.X.Type(), in.Struct) && skipped[x.Field] {
							return nil
						}
					case ssa.CallInstruction:
						c := x.Common()
						if sc := c.StaticCallee(); sc == nil || (sc.Pkg != nil && e.w.scope[sc.Pkg.Pkg.Path()]) || c.IsInvoke() {
							for _, a := range c.Args {
								if pt, ok := a.Type().Underlying().(*types.Pointer); ok && types.Identical(pt.Elem(), in.Struct) {
									return nil
								}
							}
						}
					}
				}
			}
		}
	}
	if os.Getenv("GOCV_DEBUG_REPLAY") != "" {
		fmt.Fprintln(os.Stderr, "replayable:", shortFnKey(fnKey(fn)))
	}
	return rc
}

// ---------- values from the solver

var rpSymRe = regexp.MustCompile(`[A-Za-z_$][A-Za-z0-9_.$!]*`)

// termUsable: every symbol of the term is declared in the query.
func termUsable(term, smt string) bool {
	for _, s := range rpSymRe.FindAllString(term, -1) {
		if s == "select" {
			continue
		}
		if !strings.Contains(smt, " "+s+" ") && !strings.Contains(smt, " "+s+")") && !strings.Contains(smt, "("+s+" ") {
			return false
		}
	}
	return true
}

func getValues(smt, solver string, terms []string, tmo int, dir, base string) map[string]string {
	out := map[string]string{}
	var usable []string
	for _, t := range terms {
		if termUsable(t, smt) {
			usable = append(usable, t)
		}
	}
	if len(usable) == 0 {
		return out
	}
	body := strings.Replace(smt, "(check-sat)\n", "(check-sat)\n(get-value ("+strings.Join(usable, " ")+"))\n", 1)
	body = "(set-option :produce-models true)\n" + body
	f := filepath.Join(dir, base+".values.smt2")
	os.WriteFile(f, []byte(body), 0o644)
	txt := ""
	for _, sc := range solverCmds {
		if sc.name == solver {
			_, txt, _ = runOne(sc.name, sc.argv(f, tmo), tmo)
		}
	}
	i := strings.Index(txt, "((")
	if i < 0 {
		return out
	}
	// parse the list of (term value) pairs
	s := txt[i+1:]
	for len(s) > 0 && s[0] == '(' {
		j := matchParen(s, 0)
		if j < 0 {
			break
		}
		pair := s[1:j]
		// the term is printed back verbatim (possibly re-spaced); split at the end of the term
		var term, val string
		if pair[0] == '(' {
			k := matchParen(pair, 0)
			term, val = pair[:k+1], strings.TrimSpace(pair[k+1:])
		} else {
			k := strings.IndexAny(pair, " \n")
			term, val = pair[:k], strings.TrimSpace(pair[k+1:])
		}
		out[strings.Join(strings.Fields(term), " ")] = val
		s = strings.TrimLeft(s[j+1:], " \n\r\t")
	}
	return out
}

func smtIntLit(v string) (string, bool) {
	v = strings.TrimSpace(v)
	if m := regexp.MustCompile(`^\(-\s*([0-9]+)\)$`).FindStringSubmatch(v); m != nil {
		return "-" + m[1], true
	}
	if regexp.MustCompile(`^[0-9]+$`).MatchString(v) {
		return v, true
	}
	return "", false
}

func smtFloatLit(v string) (float64, bool) {
	v = strings.TrimSpace(v)
	switch {
	case strings.HasPrefix(v, "(_ +zero"):
		return 0, true
	case strings.HasPrefix(v, "(_ -zero"):
		return math.Copysign(0, -1), true
	case strings.HasPrefix(v, "(_ +oo"):
		return math.Inf(1), true
	case strings.HasPrefix(v, "(_ -oo"):
		return math.Inf(-1), true
	case strings.HasPrefix(v, "(_ NaN"):
		return math.NaN(), true
	}
	if m := regexp.MustCompile(`^\(fp #b([01]) #b([01]{11}) #(b[01]{52}|x[0-9a-fA-F]{13})\)$`).FindStringSubmatch(v); m != nil {
		var bits uint64
		if m[1] == "1" {
			bits |= 1 << 63
		}
		ex, _ := strconv.ParseUint(m[2], 2, 64)
		bits |= ex << 52
		var mant uint64
		if m[3][0] == 'b' {
			mant, _ = strconv.ParseUint(m[3][1:], 2, 64)
		} else {
			mant, _ = strconv.ParseUint(m[3][1:], 16, 64)
		}
		bits |= mant
		return math.Float64frombits(bits), true
	}
	return 0, false
}

func smtStringLit(v string) (string, bool) {
	v = strings.TrimSpace(v)
	if len(v) < 2 || v[0] != '"' || v[len(v)-1] != '"' {
		return "", false
	}
	s := strings.ReplaceAll(v[1:len(v)-1], `""`, `"`)
	s = regexp.MustCompile(`\\u\{([0-9a-fA-F]+)\}`).ReplaceAllStringFunc(s, func(m string) string {
		n, _ := strconv.ParseInt(m[3:len(m)-1], 16, 32)
		return string(rune(n))
	})
	return s, true
}

// goLiteral renders the model value of a term as a Go expression of type t ("" when it cannot be rendered).
func goLiteral(vals map[string]string, term string, t types.Type, qual types.Qualifier) string {
	v, ok := vals[strings.Join(strings.Fields(term), " ")]
	b := t.Underlying().(*types.Basic)
	ts := types.TypeString(t, qual)
	if !ok {
		// the value does not matter for this counterexample
		switch {
		case b.Info()&types.IsBoolean != 0:
			return ts + "(false)"
		case b.Kind() == types.String:
			return ts + `("")`
		}
		return ts + "(0)"
	}
	switch {
	case b.Info()&types.IsBoolean != 0:
		if v == "true" || v == "false" {
			return ts + "(" + v + ")"
		}
	case b.Info()&types.IsInteger != 0:
		if s, ok := smtIntLit(v); ok {
			return ts + "(" + s + ")"
		}
	case b.Kind() == types.Float64:
		if f, ok := smtFloatLit(v); ok {
			return fmt.Sprintf("%s(math.Float64frombits(%d))", ts, math.Float64bits(f))
		}
	case b.Kind() == types.String:
		if s, ok := smtStringLit(v); ok {
			return ts + "(" + strconv.Quote(s) + ")"
		}
	}
	return ""
}

// ---------- spec clause -> Go (exact integers through math/big helpers)

type goTr struct {
	preds map[string]*PredDef
	depth int
	needStrings bool
	olds  []string // Go expressions evaluated before the call
	fail  bool
	rc    *replayCtx
	names map[string]bool
}

func (g *goTr) tr(x *SExpr) string {
	if x == nil {
		g.fail = true
		return "nil"
	}
	switch x.Op {
	case "num":
		if strings.Contains(x.Name, ".") {
			return "float64(" + x.Name + ")"
		}
		return `gocvBig("` + x.Name + `")`
	case "str":
		return strconv.Quote(x.Name)
	case "id":
		switch x.Name {
		case "true", "false", "nil":
			return x.Name
		case "result":
			return "gocvRet0"
		}
		if strings.HasPrefix(x.Name, "$ret") {
			return "gocvRet" + x.Name[4:]
		}
		if strings.HasPrefix(x.Name, "$") {
			g.fail = true
			return "nil"
		}
		if !g.names[x.Name] {
			g.fail = true // locals, globals, ghosts: not available to the test
		}
		return x.Name
	case "sel":
		// pkg.Const or value.field
		if len(x.Args) == 1 && x.Args[0].Op == "id" {
			if _, isPkg := g.rc.Imports[x.Args[0].Name]; isPkg && !g.names[x.Args[0].Name] {
				return x.Args[0].Name + "." + x.Name
			}
		}
		if strings.HasPrefix(x.Name, "$") {
			g.fail = true
			return "nil"
		}
		return g.tr(x.Args[0]) + "." + x.Name
	case "un":
		a := g.tr(x.Args[0])
		if x.Name == "!" {
			return "!(" + a + ")"
		}
		if x.Name == "-" {
			return "gocvNeg(" + a + ")"
		}
	case "bin":
		a, b := g.tr(x.Args[0]), g.tr(x.Args[1])
		switch x.Name {
		case "&&", "||":
			return "(" + a + " " + x.Name + " " + b + ")"
		case "==>":
			return "(!(" + a + ") || (" + b + "))"
		case "<==>":
			return "((" + a + ") == (" + b + "))"
		case "==":
			return "gocvEq(" + a + ", " + b + ")"
		case "!=":
			return "!gocvEq(" + a + ", " + b + ")"
		case "<", "<=", ">", ">=":
			return fmt.Sprintf("gocvCmp(%s, %q, %s)", a, x.Name, b)
		case "+", "-", "*", "/", "%":
			return fmt.Sprintf("gocvArith(%s, %q, %s)", a, x.Name, b)
		}
	case "call":
		if len(x.Args) == 0 || x.Args[0].Op != "id" {
			break
		}
		cname, cargs := x.Args[0].Name, x.Args[1:]
		if pd := g.preds[cname]; pd != nil && len(pd.Params) == len(cargs) && g.depth < 8 {
			sub := map[string]*SExpr{}
			for i, p := range pd.Params {
				sub[p.Name] = cargs[i]
			}
			g.depth++
			r := g.tr(substSExpr(pd.Body, sub))
			g.depth--
			return r
		}
		switch cname {
		case "old":
			if len(cargs) == 1 {
				inner := g.tr(cargs[0])
				g.olds = append(g.olds, inner)
				return fmt.Sprintf("gocvOld%d", len(g.olds)-1)
			}
		case "b2i":
			return "gocvB2i(" + g.tr(cargs[0]) + ")"
		case "ite":
			if len(cargs) == 3 {
				return "gocvIte(" + g.tr(cargs[0]) + ", " + g.tr(cargs[1]) + ", " + g.tr(cargs[2]) + ")"
			}
		case "min", "max":
			if len(cargs) == 2 {
				return fmt.Sprintf("gocvMinMax(%q, %s, %s)", cname, g.tr(cargs[0]), g.tr(cargs[1]))
			}
		case "len":
			return "len(" + g.tr(cargs[0]) + ")"
		case "deref":
			if len(cargs) == 1 {
				return "(*" + g.tr(cargs[0]) + ")"
			}
		case "contains", "hasprefix":
			if len(cargs) == 2 {
				fn := map[string]string{"contains": "strings.Contains", "hasprefix": "strings.HasPrefix"}[cname]
				g.needStrings = true
				return fn + "(" + g.tr(cargs[0]) + ", " + g.tr(cargs[1]) + ")"
			}
		case "wrap32u":
			return `gocvArith(` + g.tr(cargs[0]) + `, "mod", gocvBig("4294967296"))`
		}
	}
	if os.Getenv("GOCV_DEBUG_REPLAY") != "" && !g.fail {
		fmt.Fprintf(os.Stderr, "replay: cannot translate %s %q (%s)\n", x.Op, x.Name, x.Src)
	}
	g.fail = true
	return "nil"
}

const replayHelpers = `
func gocvBig(s string) *big.Int { n, _ := new(big.Int).SetString(s, 0); return n }

func gocvNum(v interface{}) (*big.Int, bool) {
	switch x := v.(type) {
	case *big.Int:
		return x, true
	}
	rv := reflect.ValueOf(v)
	switch rv.Kind() {
	case reflect.Int, reflect.Int8, reflect.Int16, reflect.Int32, reflect.Int64:
		return big.NewInt(rv.Int()), true
	case reflect.Uint, reflect.Uint8, reflect.Uint16, reflect.Uint32, reflect.Uint64, reflect.Uintptr:
		return new(big.Int).SetUint64(rv.Uint()), true
	}
	return nil, false
}

func gocvFloat(v interface{}) (float64, bool) {
	rv := reflect.ValueOf(v)
	if rv.Kind() == reflect.Float64 || rv.Kind() == reflect.Float32 {
		return rv.Float(), true
	}
	return 0, false
}

func gocvEq(a, b interface{}) bool {
	if reflect.ValueOf(a).IsValid() && reflect.ValueOf(b).IsValid() && reflect.ValueOf(a).Kind() == reflect.String && reflect.ValueOf(b).Kind() == reflect.String {
		return reflect.ValueOf(a).String() == reflect.ValueOf(b).String()
	}
	if x, ok := gocvNum(a); ok {
		if y, ok := gocvNum(b); ok {
			return x.Cmp(y) == 0
		}
	}
	if x, ok := gocvFloat(a); ok {
		if y, ok := gocvFloat(b); ok {
			return x == y
		}
	}
	if a == nil || b == nil {
		isNil := func(v interface{}) bool {
			if v == nil {
				return true
			}
			rv := reflect.ValueOf(v)
			switch rv.Kind() {
			case reflect.Ptr, reflect.Map, reflect.Slice, reflect.Interface, reflect.Chan, reflect.Func:
				return rv.IsNil()
			}
			return false
		}
		return isNil(a) && isNil(b)
	}
	return reflect.DeepEqual(a, b) || a == b
}

func gocvCmp(a interface{}, op string, b interface{}) bool {
	c := 0
	if x, ok := gocvNum(a); ok {
		y, _ := gocvNum(b)
		if y == nil {
			panic("gocv replay: comparing a number with a non-number")
		}
		c = x.Cmp(y)
	} else if x, ok := gocvFloat(a); ok {
		y, ok2 := gocvFloat(b)
		if !ok2 {
			if n, ok3 := gocvNum(b); ok3 {
				y, _ = new(big.Float).SetInt(n).Float64()
			}
		}
		switch op {
		case "<":
			return x < y
		case "<=":
			return x <= y
		case ">":
			return x > y
		}
		return x >= y
	} else {
		panic("gocv replay: unsupported comparison")
	}
	switch op {
	case "<":
		return c < 0
	case "<=":
		return c <= 0
	case ">":
		return c > 0
	}
	return c >= 0
}

func gocvArith(a interface{}, op string, b interface{}) interface{} {
	if sa, ok := a.(string); ok && op == "+" {
		if sb, ok := b.(string); ok {
			return sa + sb
		}
	}
	if reflect.ValueOf(a).Kind() == reflect.String && reflect.ValueOf(b).Kind() == reflect.String && op == "+" {
		return reflect.ValueOf(a).String() + reflect.ValueOf(b).String()
	}
	x, ok1 := gocvNum(a)
	y, ok2 := gocvNum(b)
	if !ok1 || !ok2 {
		panic("gocv replay: arithmetic on a non-integer")
	}
	r := new(big.Int)
	switch op {
	case "+":
		return r.Add(x, y)
	case "-":
		return r.Sub(x, y)
	case "*":
		return r.Mul(x, y)
	case "/":
		return r.Quo(x, y)
	case "%":
		return r.Rem(x, y)
	case "mod":
		return r.Mod(x, y)
	}
	panic("gocv replay: operator " + op)
}

func gocvNeg(a interface{}) *big.Int { x, _ := gocvNum(a); return new(big.Int).Neg(x) }

func gocvB2i(b bool) *big.Int {
	if b {
		return big.NewInt(1)
	}
	return big.NewInt(0)
}

func gocvIte(c bool, a, b interface{}) interface{} {
	if c {
		return a
	}
	return b
}

func gocvMinMax(which string, a, b interface{}) *big.Int {
	x, _ := gocvNum(a)
	y, _ := gocvNum(b)
	if (which == "min") == (x.Cmp(y) <= 0) {
		return x
	}
	return y
}
`

// tryReplay builds and runs the test; returns the transcript ("" when the obligation is outside the replay scope).
func tryReplay(dir, base string, o *Obligation, model string) string {
	rc := o.rep
	if rc == nil || o.SMT == "" {
		return ""
	}
	isNoPanic := o.Kind == "nopanic"
	if !isNoPanic && o.Clause == nil {
		return ""
	}
	if isNoPanic && rc.Partial {
		return "" // a panic could come from a field that was not reconstructed
	}
	if strings.Contains(o.Name, "@via:") || strings.Contains(o.Name, ":loop") || strings.Contains(o.Name, "callsite:") || strings.Contains(o.Name, ":call:") {
		return ""
	}
	solver := strings.TrimSuffix(o.Res.Solver, "+split")
	var terms []string
	for _, in := range rc.Inputs {
		if in.Struct == nil {
			terms = append(terms, in.Term)
		}
		for _, f := range in.Fields {
			terms = append(terms, f.Term)
		}
	}
	for _, g := range rc.Globals {
		terms = append(terms, g.Term)
	}
	vals := getValues(o.SMT, solver, terms, 20, dir, base)
	pkgName := rc.Fn.Pkg.Pkg.Name()
	qual := func(p *types.Package) string {
		if p.Path() == rc.PkgPath {
			return ""
		}
		return p.Name()
	}
	var b strings.Builder
	fmt.Fprintf(&b, "// Code generated by gocv from the counterexample of obligation %s. DO NOT EDIT.\n", o.Name)
	fmt.Fprintf(&b, "package %s\n\nimport (\n\t\"math\"\n\t\"math/big\"\n\t\"reflect\"\n\t\"testing\"\n", pkgName)
	usedImports := map[string]string{}
	names := map[string]bool{}
	for _, in := range rc.Inputs {
		names[in.Name] = true
	}
	for _, g := range rc.Globals {
		names[g.Name] = true
	}
	// translate the clause first: it tells which imports are needed
	tr := &goTr{rc: rc, names: names, preds: rc.Preds}
	clauseGo := "true"
	if !isNoPanic {
		clauseGo = tr.tr(o.Clause.Expr)
		if tr.fail {
			return ""
		}
	}
	needPkg := func(t types.Type) {
		if n, ok := t.(*types.Named); ok && n.Obj().Pkg() != nil && n.Obj().Pkg().Path() != rc.PkgPath {
			usedImports[n.Obj().Pkg().Name()] = n.Obj().Pkg().Path()
		}
	}
	for _, in := range rc.Inputs {
		needPkg(in.T)
		for _, f := range in.Fields {
			needPkg(f.T)
		}
	}
	for alias, path := range rc.Imports {
		if strings.Contains(clauseGo, alias+".") {
			usedImports[alias] = path
		}
	}
	if tr.needStrings {
		usedImports["strings"] = "strings"
	}
	for alias, path := range usedImports {
		fmt.Fprintf(&b, "\t%s %q\n", alias, path)
	}
	b.WriteString(")\n\nvar _ = math.Pi\nvar _ = reflect.TypeOf\nvar _ = big.NewInt\n")
	b.WriteString(replayHelpers)
	b.WriteString("\nfunc TestGocvReplay(gocvT *testing.T) {\n")
	// inputs
	var callArgs []string
	recv := ""
	for i, in := range rc.Inputs {
		if in.Struct == nil {
			lit := goLiteral(vals, in.Term, in.T, qual)
			if lit == "" {
				return ""
			}
			fmt.Fprintf(&b, "\t%s := %s\n\t_ = %s\n", in.Name, lit, in.Name)
		} else {
			fmt.Fprintf(&b, "\t%s := &%s{\n", in.Name, types.TypeString(in.Struct, qual))
			for _, f := range in.Fields {
				lit := goLiteral(vals, f.Term, f.T, qual)
				if lit == "" {
					return ""
				}
				fmt.Fprintf(&b, "\t\t%s: %s,\n", f.Name, lit)
			}
			b.WriteString("\t}\n")
		}
		if i == 0 && rc.Fn.Signature.Recv() != nil {
			recv = in.Name
		} else {
			callArgs = append(callArgs, in.Name)
		}
	}
	for _, g := range rc.Globals {
		lit := goLiteral(vals, g.Term, g.T, qual)
		if lit == "" {
			return ""
		}
		fmt.Fprintf(&b, "\t*%s = %s\n", g.Name, lit)
	}
	for i, oe := range tr.olds {
		fmt.Fprintf(&b, "\tvar gocvOld%d interface{} = %s\n\t_ = gocvOld%d\n", i, oe, i)
	}
	call := rc.Fn.Name() + "(" + strings.Join(callArgs, ", ") + ")"
	if recv != "" {
		call = recv + "." + call
	}
	b.WriteString("\tdefer func() {\n\t\tif r := recover(); r != nil {\n\t\t\tgocvT.Fatalf(\"GOCV-REPLAY-PANIC: %v\", r)\n\t\t}\n\t}()\n")
	var rets []string
	for i := 0; i < rc.Results; i++ {
		rets = append(rets, fmt.Sprintf("gocvRet%d", i))
	}
	if len(rets) > 0 {
		fmt.Fprintf(&b, "\t%s := %s\n", strings.Join(rets, ", "), call)
		for _, r := range rets {
			fmt.Fprintf(&b, "\t_ = %s\n", r)
		}
	} else {
		fmt.Fprintf(&b, "\t%s\n", call)
	}
	if !isNoPanic {
		fmt.Fprintf(&b, "\tif !(%s) {\n\t\tgocvT.Fatalf(\"GOCV-REPLAY-VIOLATED: clause %s does not hold for the inputs above\")\n\t}\n", clauseGo, strings.ReplaceAll(o.Clause.labelStr(), `"`, `'`))
	}
	b.WriteString("}\n")
	testPath := filepath.Join(dir, base+"_replay_test.go")
	os.WriteFile(testPath, []byte(b.String()), 0o644)

	// run it in the package through an overlay
	pkgDir := ""
	for _, f := range rc.Fn.Prog.Fset.File(rc.Fn.Pos()).Name() {
		_ = f
		break
	}
	pkgDir = filepath.Dir(rc.Fn.Prog.Fset.File(rc.Fn.Pos()).Name())
	ov := map[string]map[string]string{"Replace": {filepath.Join(pkgDir, "zz_gocv_replay_test.go"): testPath}}
	ovb, _ := json.Marshal(ov)
	ovPath := filepath.Join(dir, base+"_overlay.json")
	os.WriteFile(ovPath, ovb, 0o644)
	cmd := exec.Command("go", "test", "-overlay", ovPath, "-vet=off", "-count=1", "-timeout", "60s", "-run", "^TestGocvReplay$", ".")
	cmd.Dir = pkgDir
	cmd.Env = append(os.Environ(), "GOFLAGS=-mod=mod", "GOPROXY=off", "GOSUMDB=off", "GOTOOLCHAIN=local")
	done := make(chan struct{})
	var out []byte
	go func() { out, _ = cmd.CombinedOutput(); close(done) }()
	select {
	case <-done:
	case <-time.After(180 * time.Second):
		if cmd.Process != nil {
			cmd.Process.Kill()
		}
		return ""
	}
	txt := string(out)
	verdict := ""
	switch {
	case strings.Contains(txt, "GOCV-REPLAY-VIOLATED"), strings.Contains(txt, "GOCV-REPLAY-PANIC") && isNoPanic:
		verdict = "CONFIRMED on the real code"
	case strings.Contains(txt, "GOCV-REPLAY-PANIC") && !rc.Partial:
		verdict = "the real code panics on this input (obligation was a postcondition): CONFIRMED as a failure"
	case strings.Contains(txt, "GOCV-REPLAY-PANIC"):
		return "" // inputs only partly reconstructed: no verdict
	case strings.Contains(txt, "\nok") || strings.HasPrefix(txt, "ok"):
		return "" // the real code does not fail on the model's input: the model is not a replayable counterexample
	default:
		return "" // build problem in the generated test: no verdict
	}
	return fmt.Sprintf("%s\ntest: %s\ncommand: (cd %s && go test -overlay %s -vet=off -count=1 -run '^TestGocvReplay$' .)\noutput:\n%s", verdict, testPath, pkgDir, ovPath, firstLines(txt, 12))
}

// substSExpr substitutes identifiers by expressions (parameters of an inlined spec function).
func substSExpr(x *SExpr, sub map[string]*SExpr) *SExpr {
	if x == nil {
		return nil
	}
	if x.Op == "id" {
		if r, ok := sub[x.Name]; ok {
			return r
		}
		return x
	}
	c := *x
	c.Args = nil
	for _, a := range x.Args {
		c.Args = append(c.Args, substSExpr(a, sub))
	}
	return &c
}
