package main

// `gocv check`: decide one property: generate the obligations from /repo's current tree, discharge the ones tagged
// with the property, classify failures (known finding / violation), write evidence and replay files.

import (
	"go/types"
	"bufio"
	"encoding/json"
	"flag"
	"fmt"
	"golang.org/x/tools/go/ssa"
	"os"
	"path/filepath"
	"sort"
	"strconv"
	"strings"
	"time"
)

// which modules carry obligations of which property
var propModules = map[string][]string{
	"C01": {"grpcgcp"}, "C02": {"grpcgcp"}, "C03": {"grpcgcp"}, "C04": {"grpcgcp"}, "C05": {"grpcgcp"},
	"C06": {"grpcgcp"}, "C07": {"grpcgcp"}, "C08": {"grpcgcp"}, "C09": {"grpcgcp"}, "C10": {"grpcgcp"},
	"C11": {"grpcgcp"}, "C12": {"grpcgcp"}, "C13": {"grpcgcp"}, "C14": {"grpcgcp"}, "C15": {"grpcgcp"},
	"C16": {"grpcgcp"}, "C17": {"grpcgcp"}, "C18": {"prober"}, "C19": {"checksum"}, "C20": {"grpcgcp"},
}

type knownFinding struct {
	Status     string // open | fixed
	Property   string
	Obligation string
	What       string
}

func loadKnownFindings(path string) []knownFinding {
	f, err := os.Open(path)
	if err != nil {
		return nil
	}
	defer f.Close()
	var out []knownFinding
	sc := bufio.NewScanner(f)
	sc.Buffer(make([]byte, 1<<20), 1<<20)
	for sc.Scan() {
		l := strings.TrimSpace(sc.Text())
		if l == "" || strings.HasPrefix(l, "#") {
			continue
		}
		var kf knownFinding
		switch {
		case strings.HasPrefix(l, "open:"):
			kf.Status = "open"
			l = strings.TrimSpace(l[5:])
		case strings.HasPrefix(l, "fixed:"):
			kf.Status = "fixed"
			l = strings.TrimSpace(l[6:])
		default:
			continue
		}
		for _, f := range strings.Fields(l) {
			if strings.HasPrefix(f, "property=") {
				kf.Property = f[len("property="):]
			}
			if strings.HasPrefix(f, "obligation=") {
				kf.Obligation = f[len("obligation="):]
			}
		}
		if i := strings.Index(l, "::"); i >= 0 {
			kf.What = strings.TrimSpace(l[i+2:])
		} else {
			kf.What = l
		}
		out = append(out, kf)
	}
	return out
}

func hasTag(o *Obligation, p string) bool {
	for _, t := range o.Tags {
		if t == p {
			return true
		}
	}
	return false
}

type evidence struct {
	PropertyID  string                 `json:"property_id"`
	Tier        string                 `json:"tier"`
	Seed        int                    `json:"seed"`
	Level       string                 `json:"level"`
	Coverage    map[string]interface{} `json:"coverage"`
	Assumptions []string               `json:"assumptions"`
	WallS       float64                `json:"wall_s"`
	Violations  int                    `json:"violations"`
}

func cmdCheck(args []string) int {
	fs := flag.NewFlagSet("check", flag.ExitOnError)
	prop := fs.String("prop", "", "property id")
	tier := fs.String("tier", "quick", "quick|thorough")
	fs.Parse(args)
	if *prop == "" {
		fmt.Fprintln(os.Stderr, "check: -prop required")
		return 2
	}
	t0 := time.Now()
	seed, _ := strconv.Atoi(os.Getenv("VERIF_SEED"))
	tmo, mode := 20, "first"
	if *tier == "thorough" {
		tmo, mode = 60, "all"
	}
	kfs := loadKnownFindings(filepath.Join(verifDir, "known_findings.txt"))
	expected := loadExpected(filepath.Join(verifDir, "contracts", "expected_counts.json"))

	var obls []*Obligation
	var reps []*FnReport
	var problems []string // binding / spec / engine problems: reported as violations without input
	fnsUnder := map[string]bool{}
	assumptions := map[string]bool{}
	usedContracts := map[string]bool{}
	var specFiles, statedAssumptions []string
	for _, mod := range propModules[*prop] {
		w := loadModuleForCheck(mod, *tier, &problems)
		_ = w
		if w == nil {
			continue
		}
		specFiles = append(specFiles, w.spec.Files...)
		statedAssumptions = append(statedAssumptions, w.spec.Assumed...)
		for _, be := range w.bindErrors(*prop) {
			problems = append(problems, be)
		}
		obls = append(obls, w.callerObligations(*prop)...)
		obls = append(obls, w.closeOnlyObligations(*prop)...)
		obls = append(obls, w.lemmaObligations(*prop)...)
		obls = append(obls, rawLemmaObligations(*prop)...)
		for _, fn := range w.scopeFunctions() {
			if !w.isStandalone(fn) {
				continue
			}
			rep := verifyFunction(w, fn)
			mine := 0
			for _, o := range rep.Obls {
				if hasTag(o, *prop) {
					mine++
				}
			}
			if mine == 0 && (rep.Panic != "" || len(rep.SpecErrs) > 0) && w.fnConcerns(fn, *prop) {
				// the function could not be verified at all (its contract no longer binds, or the engine failed on
				// it): that must not make it disappear from the check of the properties it serves
				mine = 1
			}
			if mine == 0 {
				continue
			}
			reps = append(reps, rep)
			fnsUnder[shortFnKey(rep.Key)] = true
			if rep.Panic != "" {
				problems = append(problems, fmt.Sprintf("engine failure in %s: %s", shortFnKey(rep.Key), rep.Panic))
			}
			for _, s := range rep.SpecErrs {
				problems = append(problems, fmt.Sprintf("contract does not bind in %s: %s", shortFnKey(rep.Key), s))
			}
			for _, s := range rep.Outside {
				assumptions["outside-subset (value havocked, over-approximation): "+s] = true
			}
			for _, d := range rep.UsedDefault {
				assumptions["default external assumption (arbitrary result, no panic, no effect on in-repo state): "+d] = true
			}
			for _, c := range rep.UsedContracts {
				usedContracts[c] = true
				// contracts that come from /verif/contracts/extern are assumptions, whatever they are about (also the
				// abstract contracts on in-repo interfaces)
				if con := w.spec.Fns[c]; con != nil && con.Pkg == "extern" {
					assumptions["assumed extern contract: "+c] = true
				}
				if con := w.spec.Dyn[c]; con != nil {
					assumptions["assumed contract of a function value (dyn): "+c] = true
				}
			}
			for _, f := range rep.Features {
				assumptions[f] = true
			}
			if con := w.contractFor(fn); con != nil {
				for _, rq := range con.Requires {
					if strings.Contains(rq.Label, "assume") && hasStr(rq.Tags, *prop) {
						assumptions["entry precondition assumed (no in-repo caller discharges it): "+shortFnKey(rep.Key)+": "+rq.Src] = true
					}
				}
			}
			for _, o := range rep.Obls {
				if hasTag(o, *prop) || (o.Kind == "reach" || o.Kind == "cover") {
					obls = append(obls, o)
				}
			}
		}
	}
	outBase := verifDir
	if v := os.Getenv("GOCV_OUT"); v != "" {
		outBase = v // scratch runs (seeded changes, self-tests) must not overwrite the real evidence
	}
	// scratch directory of this run (unique: two checks of one property may run at the same time); the queries of
	// failing obligations are copied to replay_out, the rest is removed at the end
	os.MkdirAll(filepath.Join(outBase, "out"), 0o755)
	outDir, derr := os.MkdirTemp(filepath.Join(outBase, "out"), *prop+"-")
	if derr != nil {
		outDir = filepath.Join(outBase, "out", fmt.Sprintf("%s-%d", *prop, os.Getpid()))
		os.MkdirAll(outDir, 0o755)
	}
	if os.Getenv("GOCV_KEEP") == "" {
		defer os.RemoveAll(outDir)
	}
	solveAll(obls, outDir, tmo, mode)

	replayDir := filepath.Join(outBase, "replay_out", *prop)
	os.RemoveAll(replayDir)
	os.MkdirAll(replayDir, 0o755)

	// classify
	nObl, nDis := 0, 0
	byBackend := map[string]int{}
	var solverTime float64
	type slowT struct {
		Name string  `json:"name"`
		S    float64 `json:"s"`
	}
	var slow []slowT
	var samples []map[string]interface{}
	violations := 0
	knownHit := map[string]bool{}
	vacuity := map[string]int{}
	var lines []string
	for i, o := range obls {
		if o.Dropped {
			continue // an alternative of a lock inference that another alternative decided
		}
		isGuard := o.Kind == "reach" || o.Kind == "cover"
		solverTime += o.Res.TimeS
		if isGuard {
			vacuity["run"]++
			if o.ok() {
				vacuity["ok"]++
				continue
			}
		} else {
			nObl++
			slow = append(slow, slowT{o.Name, o.Res.TimeS})
			if o.ok() {
				nDis++
				byBackend[o.Res.Solver]++
				if len(samples) < 4 && o.Res.Solver != "static" {
					samples = append(samples, map[string]interface{}{"obligation": o.Name, "kind": o.Kind, "answer": o.Res.Status, "solver": o.Res.Solver, "smt_bytes": len(o.SMT), "time_s": o.Res.TimeS})
				}
				continue
			}
		}
		// failed obligation: known finding?
		matched := false
		for _, kf := range kfs {
			if kf.Status == "open" && kf.Property == *prop && kf.Obligation == o.Name {
				matched = true
				if !knownHit[o.Name] {
					knownHit[o.Name] = true
					lines = append(lines, fmt.Sprintf("KNOWN-FINDING: property=%s %s :: %s", *prop, o.Name, kf.What))
				}
			}
		}
		if matched {
			nObl-- // a listed finding is neither claimed nor counted as discharged
			continue
		}
		violations++
		rp := writeReplay(replayDir, i, o, tmo, isGuard)
		suffix := ""
		if !rp.executable {
			suffix = " no-failing-input-found"
		}
		lines = append(lines, fmt.Sprintf("VIOLATION property=%s replay=%s obligation=%s status=%s%s", *prop, rp.path, o.Name, o.Res.Status, suffix))
	}
	for i, p := range problems {
		violations++
		f := filepath.Join(replayDir, fmt.Sprintf("problem%02d.txt", i))
		os.WriteFile(f, []byte("obligation: bind/"+*prop+"\nreason: "+p+"\nno solver counterexample: the contracts no longer bind to the code (or the engine could not process it)\n"), 0o644)
		lines = append(lines, fmt.Sprintf("VIOLATION property=%s replay=%s obligation=bind reason=%q no-failing-input-found", *prop, f, p))
	}
	// vacuity: the number of obligations must not drop below what the unchanged tree generates
	if exp, ok := expected[*prop]; ok && nObl+len(knownHit) < exp*9/10 {
		violations++
		f := filepath.Join(replayDir, "vacuity.txt")
		os.WriteFile(f, []byte(fmt.Sprintf("obligation: vacuity/%s\nonly %d obligations were generated for %s, the unchanged tree generates %d: contracts lost their functions\n", *prop, nObl, *prop, exp)), 0o644)
		lines = append(lines, fmt.Sprintf("VIOLATION property=%s replay=%s obligation=vacuity generated=%d expected=%d no-failing-input-found", *prop, f, nObl, exp))
	}
	if nObl == 0 {
		violations++
		f := filepath.Join(replayDir, "vacuity.txt")
		os.WriteFile(f, []byte("obligation: vacuity\nno obligation was generated for this property\n"), 0o644)
		lines = append(lines, fmt.Sprintf("VIOLATION property=%s replay=%s obligation=vacuity generated=0 no-failing-input-found", *prop, f))
	}
	sort.Slice(slow, func(i, j int) bool { return slow[i].S > slow[j].S })
	if len(slow) > 5 {
		slow = slow[:5]
	}
	var fns []string
	for f := range fnsUnder {
		fns = append(fns, f)
	}
	sort.Strings(fns)
	var as []string
	for a := range assumptions {
		as = append(as, a)
	}
	for c := range usedContracts {
		if strings.Contains(c, "/") && !strings.Contains(c, "grpc-gcp-go") || strings.HasPrefix(c, "time.") || strings.HasPrefix(c, "reflect.") || strings.HasPrefix(c, "context.") || strings.HasPrefix(c, "sync") {
			as = append(as, "assumed extern contract: "+c)
		}
	}
	as = append(as, globalAssumptions(*prop)...)
	for _, a := range statedAssumptions {
		if strings.Contains(strings.SplitN(a, "]", 2)[0], *prop) {
			as = append(as, "stated in the contracts: "+a)
		}
	}
	sort.Strings(as)
	// one line per assumption (an extern contract is recorded both where it is used and by its origin)
	uniq := as[:0]
	for i, a := range as {
		if i == 0 || a != as[i-1] {
			uniq = append(uniq, a)
		}
	}
	as = uniq
	var kfList []string
	for k := range knownHit {
		kfList = append(kfList, k)
	}
	sort.Strings(kfList)
	ev := evidence{PropertyID: *prop, Tier: *tier, Seed: seed, Level: "proof", Assumptions: as, WallS: time.Since(t0).Seconds(), Violations: violations,
		Coverage: map[string]interface{}{
			"obligations": nObl, "discharged": nDis,
			"checker_cmd":              fmt.Sprintf("/verif/bin/gocv check -prop %s -tier %s", *prop, *tier),
			"trusted_base":             []string{"gocv VC generator and contract parser (/verif/gocv)", "golang.org/x/tools/go/ssa v0.29.0", "z3 5.1.0 (z3-new), z3 4.8.12, cvc5 1.0", "assumed extern contracts in /verif/contracts/extern", "Go memory model lock-set argument (C10)"},
			"functions_under_contract": fns,
			"by_backend":               byBackend,
			"solver_time_s":            solverTime,
			"slowest":                  slow,
			"samples":                  samples,
			"vacuity":                  vacuity,
			"known_findings":           kfList,
			"bounded":                  []string{},
			"contract_files":           specFiles,
			"explanation":              "every obligation tagged with the property is generated from /repo's current source (go/ssa, naive form) and must be unsat (negated goal) on this run",
		}}
	if len(samples) == 0 {
		ev.Coverage["samples"] = []map[string]interface{}{{"note": "all obligations of this property were decided statically or failed"}}
	}
	os.MkdirAll(filepath.Join(outBase, "evidence"), 0o755)
	b, _ := json.MarshalIndent(ev, "", " ")
	os.WriteFile(filepath.Join(outBase, "evidence", *prop+".json"), b, 0o644)
	for _, l := range lines {
		fmt.Println(l)
	}
	fmt.Printf("property=%s tier=%s obligations=%d discharged=%d known_findings=%d violations=%d functions=%d wall=%.1fs\n", *prop, *tier, nObl, nDis, len(knownHit), violations, len(fns), time.Since(t0).Seconds())
	if violations > 0 {
		return 1
	}
	return 0
}

func loadModuleForCheck(name string, tier string, problems *[]string) *World {
	m, ok := modules()[name]
	if !ok {
		*problems = append(*problems, "unknown module "+name)
		return nil
	}
	w, err := loadWorld(m, filepath.Join(verifDir, "contracts", "extern"), Options{InlineDepth: 6, ReachBlocks: tier == "thorough" && os.Getenv("GOCV_REACH") == "blocks"})
	if err != nil {
		*problems = append(*problems, "cannot load "+name+": "+firstLines(err.Error(), 3))
		return nil
	}
	for _, e := range w.spec.Errors {
		*problems = append(*problems, "contract file error: "+e)
	}
	for _, a := range w.spec.AssumeScan {
		*problems = append(*problems, "assume in a contract file: "+a)
	}
	return w
}

// bindErrors: contracts (of this property) that name functions which no longer exist.
func (w *World) bindErrors(prop string) []string {
	var out []string
	for key, con := range w.spec.Fns {
		if con.Pkg == "extern" || con.Optional {
			continue
		}
		if !w.scope[con.Pkg] {
			continue
		}
		// contracts in repo files for extern functions (context.Context.Value ...) have keys outside the package
		if !strings.HasPrefix(key, con.Pkg+".") {
			continue
		}
		if _, ok := w.fnByKey[key]; ok {
			continue
		}
		tagged := false
		for _, c := range append(append([]*Clause{}, con.Ensures...), con.Requires...) {
			for _, t := range c.Tags {
				if t == prop {
					tagged = true
				}
			}
		}
		if tagged {
			out = append(out, fmt.Sprintf("contract for %s: no such function (%s:%d)", shortFnKey(key), con.File, con.Line))
		}
	}
	sort.Strings(out)
	return out
}

func loadExpected(path string) map[string]int {
	m := map[string]int{}
	b, err := os.ReadFile(path)
	if err != nil {
		return m
	}
	json.Unmarshal(b, &m)
	return m
}

type replayInfo struct {
	path       string
	executable bool
}

// writeReplay writes the replay file of a failed obligation: name, solver output, the model when there is one.
func writeReplay(dir string, i int, o *Obligation, tmo int, guard bool) replayInfo {
	var b strings.Builder
	fmt.Fprintf(&b, "obligation: %s\nkind: %s\nfunction: %s\nposition: %s\ntags: %v\nstatus: %s (%s)\nsolvers: %s\n", o.Name, o.Kind, o.Fn, o.Pos, o.Tags, o.Res.Status, o.Res.Solver, strings.Join(o.Res.Tried, " "))
	if guard {
		b.WriteString("meaning: a reachability / precondition-satisfiability guard came back unsat: the contracts or the model are contradictory on this path (vacuous proof)\n")
	}
	if o.Static != "" {
		fmt.Fprintf(&b, "decided statically: %s\n", o.Static)
	}
	if o.Res.Output != "" {
		fmt.Fprintf(&b, "solver output:\n%s\n", o.Res.Output)
	}
	base := fmt.Sprintf("v%03d", i)
	if o.SMT != "" {
		os.WriteFile(filepath.Join(dir, base+".smt2"), []byte(o.SMT), 0o644)
		fmt.Fprintf(&b, "query: %s\n", filepath.Join(dir, base+".smt2"))
	}
	executable := false
	if o.Res.Status == "sat" && o.SMT != "" {
		solver := strings.TrimSuffix(o.Res.Solver, "+split")
		if o.Res.SatSMT != "" {
			// the counterexample was found on one branch of the case split: models and values come from that query
			o.SMT = o.Res.SatSMT
			os.WriteFile(filepath.Join(dir, base+".smt2"), []byte(o.SMT), 0o644)
		}
		model := getModel(o.SMT, solver, tmo, dir, base)
		fmt.Fprintf(&b, "model (%s):\n%s\n", solver, model)
		if rp := tryReplay(dir, base, o, model); rp != "" {
			executable = true
			fmt.Fprintf(&b, "replay on the real code:\n%s\n", rp)
		} else {
			b.WriteString("replay: the model was not turned into an executable test for this obligation kind; it is given above for manual replay\n")
		}
	} else {
		b.WriteString("no failing input: the solver gave no model (unknown/timeout/static); the obligation passed on the unchanged tree and fails now\n")
	}
	p := filepath.Join(dir, base+".txt")
	os.WriteFile(p, []byte(b.String()), 0o644)
	return replayInfo{path: p, executable: executable}
}

func globalAssumptions(prop string) []string {
	out := []string{
		"T1: soundness of gocv and go/ssa (mitigated by must-fail mutants, reach guards, three solvers)",
		"T4: maps are finite, allocation succeeds, fewer than 2^32 connections per balancer",
		"integers have exact Go semantics (wrap-around modelled); nothing is treated as mathematical",
	}
	switch prop {
	case "C10":
		out = append(out, "T7: lock discipline + protection classes imply data-race freedom (lock-set theorem, Go memory model)", "T8: each guarded object belongs to one lock instance", "T9: publication through cc.UpdateState / goroutine start establishes happens-before for init_once and immutable fields")
	}
	return out
}

// callerObligations: static call-graph obligations from `callers` directives (who may cause an effect).
func (w *World) callerObligations(prop string) []*Obligation {
	var out []*Obligation
	for _, cd := range w.spec.Callers {
		tagged := false
		for _, t := range cd.Tags {
			if t == prop {
				tagged = true
			}
		}
		if !tagged {
			continue
		}
		allowed := map[string]bool{}
		for _, a := range cd.Allowed {
			allowed[a] = true
		}
		var bad []string
		found := false
		for _, f := range w.scopeFunctions() {
			for _, b := range f.Blocks {
				for _, in := range b.Instrs {
					ci, ok := in.(interface{ Common() *ssa.CallCommon })
					if !ok {
						continue
					}
					name := ""
					if c := ci.Common().StaticCallee(); c != nil {
						name = shortFnName(c)
					} else if ci.Common().IsInvoke() {
						name = ci.Common().Method.Name()
					}
					if name != cd.Fn {
						continue
					}
					found = true
					if !allowed[shortFnName(f)] {
						bad = append(bad, shortFnName(f))
					}
				}
			}
		}
		o := &Obligation{Name: "callers[" + cd.Label + "]:" + cd.Fn, Kind: "contract", Tags: cd.Tags, Fn: cd.Fn, Static: "ok"}
		if len(bad) > 0 {
			sort.Strings(bad)
			o.Static = "called from functions outside the allowed set: " + strings.Join(bad, ", ")
		} else if !found && len(cd.Allowed) > 0 {
			o.Static = "no call of " + cd.Fn + " found (contract no longer binds)"
		} else if !found {
			// "nobody may call it": the function itself must still exist for the directive to mean something
			exists := false
			for _, f := range w.scopeFunctions() {
				if shortFnName(f) == cd.Fn {
					exists = true
				}
			}
			if !exists {
				o.Static = "function " + cd.Fn + " not found (contract no longer binds)"
			}
		}
		out = append(out, o)
	}
	return out
}

func shortFnName(f *ssa.Function) string {
	k := shortFnKey(fnKey(f))
	if i := strings.LastIndex(k, ")."); i >= 0 {
		return k[i+2:]
	}
	return k
}

// lemmaObligations: pure lemmas (no program state) proved as their own obligations.
func (w *World) lemmaObligations(prop string) []*Obligation {
	var out []*Obligation
	for _, l := range w.spec.Lemmas {
		tagged := false
		for _, t := range l.Tags {
			if t == prop {
				tagged = true
			}
		}
		if !tagged {
			continue
		}
		var anyFn *ssa.Function
		for _, f := range w.scopeFunctions() {
			anyFn = f
			break
		}
		e := newEngine(w, anyFn)
		st := &State{pc: "true", locals: map[*ssa.Alloc][]string{}, regs: map[ssa.Value]*Val{}, heap: map[string]string{}}
		env := &SpecEnv{e: e, st: st, vars: map[string]*SV{}, pkg: l.Pkg}
		sv := env.eval(l.Expr)
		g := "false"
		if sv != nil && len(sv.V.L) == 1 {
			g = sv.V.L[0]
		}
		out = append(out, &Obligation{Name: "lemma[" + l.Label + "]", Kind: "contract", Tags: l.Tags, Fn: "lemma", c: e.c, PC: st.pc, Goal: g})
	}
	return out
}

// rawLemmaObligations: hand-written SMT lemma files (contracts/lemmas/*.smt2) that justify axioms used in the VCs;
// each must be unsat on every run. The first line "; tags: C18 ..." assigns them to properties.
func rawLemmaObligations(prop string) []*Obligation {
	files, _ := filepath.Glob(filepath.Join(verifDir, "contracts", "lemmas", "*.smt2"))
	sort.Strings(files)
	var out []*Obligation
	for _, f := range files {
		b, err := os.ReadFile(f)
		if err != nil {
			continue
		}
		first := strings.SplitN(string(b), "\n", 2)[0]
		if !strings.Contains(first, "tags:") || !strings.Contains(first, prop) {
			continue
		}
		out = append(out, &Obligation{Name: "lemma.smt:" + strings.TrimSuffix(filepath.Base(f), ".smt2"), Kind: "contract", Tags: []string{prop}, Fn: "lemma", RawSMT: string(b)})
	}
	return out
}

// fnConcerns: does the function serve the property (a clause of its contract or an autotag names it)?
func (w *World) fnConcerns(fn *ssa.Function, prop string) bool {
	has := func(ts []string) bool {
		for _, t := range ts {
			if t == prop {
				return true
			}
		}
		return false
	}
	if con := w.contractFor(fn); con != nil {
		for _, cs := range [][]*Clause{con.Requires, con.Ensures, con.AbsEnsure, con.EnvAssume, con.Captures} {
			for _, c := range cs {
				if has(c.Tags) {
					return true
				}
			}
		}
		for _, lc := range con.Loops {
			for _, c := range lc.Invs {
				if has(c.Tags) {
					return true
				}
			}
		}
		for _, cs := range con.CallSites {
			if has(cs.C.Tags) {
				return true
			}
		}
	}
	e := newEngine(w, fn)
	for _, kind := range []string{"nopanic", "lock", "term", "race", "reach", "contract"} {
		if has(e.autoTags(kind, fn)) {
			return true
		}
	}
	return false
}

func hasStr(xs []string, x string) bool {
	for _, y := range xs {
		if y == x {
			return true
		}
	}
	return false
}

// closeOnlyObligations: a `closeonly T.field` channel must never be the operand of a send statement.
func (w *World) closeOnlyObligations(prop string) []*Obligation {
	var out []*Obligation
	var keys []string
	for k := range w.spec.CloseOnly {
		keys = append(keys, k)
	}
	sort.Strings(keys)
	for _, key := range keys {
		tags := w.spec.CloseOnly[key]
		if !hasStr(tags, prop) {
			continue
		}
		var bad []string
		for _, f := range w.scopeFunctions() {
			for _, b := range f.Blocks {
				for _, in := range b.Instrs {
					var ch ssa.Value
					switch x := in.(type) {
					case *ssa.Send:
						ch = x.Chan
					case *ssa.Select:
						for _, s := range x.States {
							if s.Dir == types.SendOnly && fieldKeyOf(s.Chan) == key {
								bad = append(bad, shortFnName(f))
							}
						}
					}
					if ch != nil && fieldKeyOf(ch) == key {
						bad = append(bad, shortFnName(f))
					}
				}
			}
		}
		o := &Obligation{Name: "closeonly:" + key[strings.LastIndex(key, "/")+1:], Kind: "contract", Tags: tags, Fn: key, Static: "ok"}
		if len(bad) > 0 {
			o.Static = "sent on a close-only channel in: " + strings.Join(bad, ", ")
		}
		out = append(out, o)
	}
	return out
}

// fieldKeyOf: "pkg.T.field" when v is a direct load of a struct field through a pointer, else "".
func fieldKeyOf(v ssa.Value) string {
	u, ok := v.(*ssa.UnOp)
	if !ok {
		return ""
	}
	fa, ok := u.X.(*ssa.FieldAddr)
	if !ok {
		return ""
	}
	pt, ok := fa.X.Type().Underlying().(*types.Pointer)
	if !ok {
		return ""
	}
	n, ok := pt.Elem().(*types.Named)
	if !ok || n.Obj().Pkg() == nil {
		return ""
	}
	su, ok := n.Underlying().(*types.Struct)
	if !ok {
		return ""
	}
	return n.Obj().Pkg().Path() + "." + n.Obj().Name() + "." + su.Field(fa.Field).Name()
}
