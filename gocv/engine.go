package main

import (
	"fmt"
	"go/ast"
	"go/token"
	"go/types"
	"sort"
	"strings"

	"golang.org/x/tools/go/packages"
	"golang.org/x/tools/go/ssa"
)

// Obligation is one proof goal.
type Obligation struct {
	Name   string
	Kind   string   // contract, nopanic, lock, term, race, frame, bind, cover, outside
	Tags   []string // property ids
	Fn     string
	c      *Ctx
	PC     string
	Goal   string
	Cover  bool // satisfiability check: expected sat
	Reach  bool // reachability guard: anything but unsat is accepted
	RawSMT string // complete hand-written query (expected unsat)
	rep    *replayCtx // set when the function is within the scope of counterexample replay
	Clause *Clause    // the postcondition this obligation checks (replay evaluates it on the real result)
	Static string // non-empty: decided without a solver: "ok" or failure reason
	Pos    string
	// Group/Alt: alternative obligations (lock inference for a field without a protection declaration): the group
	// holds if, for one alternative, every obligation of the group carrying it holds; the other alternatives are dropped
	Group   string
	Alt     string
	Dropped bool
	// results
	Res   SolveResult
	SMT   string
	File  string
}

// World holds loaded packages and contracts for one module.
type World struct {
	pkgs     []*packages.Package
	prog     *ssa.Program
	spkgs    []*ssa.Package
	fset     *token.FileSet
	scope    map[string]bool // package paths under verification
	inlineOK map[string]bool // package paths whose functions may be inlined (scope + generated)
	spec     *SpecDB
	fnByKey  map[string]*ssa.Function
	writeSets map[*ssa.Function]*WriteSet
	opts     Options
	fl       *Flattener
	extraNoPanicTags map[string][]string
	raceStrict map[string]bool
	tpkgs    map[string]*types.Package
	callers  map[*ssa.Function]bool
	autoTagCache map[string][]string
	mcfg     ModuleCfg
}

type Options struct {
	InlineDepth int
	Verbose     bool
	ReachBlocks bool
}

// Engine verifies one top-level function (with inlined callees).
type Engine struct {
	w        *World
	c        *Ctx
	fl       *Flattener
	heapInfo map[string]*heapInfo
	tracks   []*track
	refBirth map[string]int
	escaped  map[string]bool // refs allocated by this activation that a closure handed to foreign code captures
	nalloc   int
	obls     []*Obligation
	top      *ssa.Function
	topKey   string
	nameCnt  map[string]int
	rep      *replayCtx
	outside  []string
	usedExtern map[string]bool
	usedDefault map[string]bool
	curPrefix string
	entry    *State // entry state of the top function (for old())
	depth    int
	pkg      *packages.Package
	lockOld  map[string]*State // lock class -> state at last acquire (for atomic old)
	suppress int // >0: suppress obligation generation (pure spec calls)
	fnById   map[string]*Val
	typeTags []string
	features []string
	specErrors []string
	guardCache map[string][]string
	woCache    map[string][]writeOnceField
	wsCache  map[string]*WriteSet
	usedContracts map[string]bool
	stack    []*ssa.Function
	inTypeInv int
	typeInvDone map[string]bool
	nq       int
	counted  map[string]string
	immArr   map[string]bool
	rawDone  bool
	rePat    map[string]string
}

func newEngine(w *World, top *ssa.Function) *Engine {
	c := newCtx()
	e := &Engine{w: w, c: c, fl: w.fl, heapInfo: map[string]*heapInfo{}, top: top, topKey: fnKey(top), nameCnt: map[string]int{},
		usedExtern: map[string]bool{}, usedDefault: map[string]bool{}, lockOld: map[string]*State{}, refBirth: map[string]int{},
		fnById: map[string]*Val{}, guardCache: map[string][]string{}, wsCache: map[string]*WriteSet{}, usedContracts: map[string]bool{},
		typeInvDone: map[string]bool{}, counted: map[string]string{}, immArr: map[string]bool{}, rePat: map[string]string{}}
	c.strTheory = w.fl.strTheory
	return e
}

func fnKey(f *ssa.Function) string {
	// canonical key: "pkgpath.(*T).Name", "pkgpath.Name", closures "parent$1"
	if f.Parent() != nil {
		return fnKey(f.Parent()) + f.Name()[strings.LastIndex(f.Name(), "$"):]
	}
	if recv := f.Signature.Recv(); recv != nil {
		rt := recv.Type()
		ptr := ""
		if p, ok := rt.(*types.Pointer); ok {
			rt = p.Elem()
			ptr = "*"
		}
		if n, ok := rt.(*types.Named); ok {
			pp := ""
			if n.Obj().Pkg() != nil {
				pp = n.Obj().Pkg().Path() + "."
			}
			return fmt.Sprintf("%s(%s%s).%s", pp, ptr, n.Obj().Name(), f.Name())
		}
		return fmt.Sprintf("(%s).%s", rt.String(), f.Name())
	}
	if f.Pkg != nil {
		return f.Pkg.Pkg.Path() + "." + f.Name()
	}
	if f.Object() != nil && f.Object().Pkg() != nil {
		return f.Object().Pkg().Path() + "." + f.Name()
	}
	return f.String()
}

// shortFnKey drops the package path of in-scope functions for readable obligation names.
func shortFnKey(k string) string {
	i := strings.LastIndex(k, "/")
	s := k[i+1:]
	// "grpcgcp.(*gcpBalancer).bindSubConn" -> "(*gcpBalancer).bindSubConn"
	if j := strings.Index(s, "."); j >= 0 {
		s = s[j+1:]
	}
	return s
}

func (e *Engine) outsideSubset(what string) {
	msg := fmt.Sprintf("outside-subset:%s:%s", shortFnKey(e.topKey), what)
	for _, o := range e.outside {
		if o == msg {
			return
		}
	}
	e.outside = append(e.outside, msg)
}

// addObl registers an obligation at state st with goal g.
func (e *Engine) addObl(kind, name string, tags []string, st *State, goal string, pos token.Pos) *Obligation {
	if e.suppress > 0 {
		return nil
	}
	full := kind + ":" + shortFnKey(e.topKey) + ":" + name
	if kind == "contract" {
		full = shortFnKey(e.topKey) + ":" + name
	}
	if e.curPrefix != "" {
		full += "@" + e.curPrefix
	}
	e.nameCnt[full]++
	if n := e.nameCnt[full]; n > 1 {
		full = fmt.Sprintf("%s#%d", full, n)
	}
	if len(tags) == 0 && kind != "reach" && kind != "cover" {
		// an obligation nobody tagged (a call-site precondition in a function without tagged clauses, a captures or
		// constructor obligation, an untagged postcondition that callers rely on) must still belong to some check:
		// it goes with the no-panic property of the file it is in
		tags = e.autoTags("nopanic", e.top)
	}
	if fl := e.envGuardFor(tags); fl != "" && goal != "true" {
		goal = "(=> " + fl + " " + goal + ")"
	}
	o := &Obligation{Name: full, Kind: kind, Tags: tags, Fn: e.topKey, c: e.c, PC: st.pc, Goal: goal, rep: e.rep}
	if pos.IsValid() {
		p := e.w.fset.Position(pos)
		o.Pos = fmt.Sprintf("%s:%d", p.Filename, p.Line)
	}
	if goal == "true" {
		o.Static = "ok"
	}
	e.obls = append(e.obls, o)
	return o
}

// exprText returns the source text of the smallest expression enclosing pos.
func (e *Engine) exprText(fn *ssa.Function, pos token.Pos) string {
	if !pos.IsValid() {
		return "?"
	}
	var file *ast.File
	for _, p := range e.w.pkgs {
		for _, f := range p.Syntax {
			if f.Pos() <= pos && pos < f.End() {
				file = f
			}
		}
	}
	if file == nil {
		return "?"
	}
	var best ast.Node
	ast.Inspect(file, func(n ast.Node) bool {
		if n == nil {
			return false
		}
		if n.Pos() <= pos && pos < n.End() {
			switch n.(type) {
			case *ast.SelectorExpr, *ast.IndexExpr, *ast.CallExpr, *ast.StarExpr, *ast.TypeAssertExpr, *ast.BinaryExpr, *ast.SliceExpr, *ast.UnaryExpr, *ast.RangeStmt, *ast.Ident, *ast.CompositeLit:
				best = n
			}
			return true
		}
		return false
	})
	if best == nil {
		return "?"
	}
	if r, ok := best.(*ast.RangeStmt); ok {
		return "range " + types.ExprString(r.X)
	}
	if ex, ok := best.(ast.Expr); ok {
		s := types.ExprString(ex)
		if len(s) > 80 {
			s = s[:80]
		}
		return strings.ReplaceAll(s, " ", "")
	}
	return "?"
}

// ---------- write sets ----------

type WriteSet struct {
	keys   map[string]bool // heap keys possibly written
	locks  map[string]bool // lock classes acquired
	blocking bool
}

func newWS() *WriteSet { return &WriteSet{keys: map[string]bool{}, locks: map[string]bool{}} }

func (ws *WriteSet) sortedKeys() []string {
	ks := make([]string, 0, len(ws.keys))
	for k := range ws.keys {
		ks = append(ks, k)
	}
	sort.Strings(ks)
	return ks
}

// envGuardFor: `envassume [P.x] e` clauses (environment assumptions for one property P) hold under the global boolean
// env!P. Only what serves P alone may use it: obligations all of whose tags are P are proved under env!P, and a lock
// invariant tagged only P (proved under env!P) is assumed only under env!P. Everything else never sees the assumption.
func (e *Engine) envGuardFor(tags []string) string {
	if len(tags) == 0 {
		return ""
	}
	p := tags[0]
	for _, t := range tags {
		if t != p {
			return ""
		}
	}
	if !e.w.spec.EnvProps[p] {
		return ""
	}
	return e.c.constant("env!"+p, SBool)
}
