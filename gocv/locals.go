package main

// Binding of contract identifiers to locals that were renamed.
//
// Loop invariants and call-site clauses name local variables of the function they describe. A change that only renames
// such a local leaves the contract without a referent. To keep the contract bound, /verif/contracts/locals.json records,
// for the tree the contracts were written against, the named variables of every function (parameters, captured
// variables, locals; name and type, in source order). When a contract identifier is unknown in the current function but
// was a variable of that function in the recorded table, the variable is looked for among those the current function has
// and the table has not: same type, k-th removed name of that type <-> k-th added name of that type. The rebinding is only a
// way of finding the referent: every clause is still proved about the variable it was bound to, so a wrong guess can
// make a proof fail (as the unbound name did before) but cannot make a false clause pass.

import (
	"encoding/json"
	"fmt"
	"go/token"
	"go/types"
	"os"
	"path/filepath"
	"sort"
	"sync"

	"golang.org/x/tools/go/ssa"
)

type localEntry struct {
	Name string `json:"n"`
	Type string `json:"t"`
}

var generatedAllocComments = map[string]bool{"complit": true, "slicelit": true, "varargs": true, "rangeindex": true,
	"rangeiter": true, "new": true, "makeslice": true, "arraylit": true, "selectrecv": true, "": true}

// fnLocals lists the named variables of fn in source order.
func fnLocals(fn *ssa.Function) []localEntry {
	type item struct {
		localEntry
		pos token.Pos
		ord int
	}
	var items []item
	seen := map[string]bool{}
	add := func(name string, t types.Type, pos token.Pos) {
		if name == "" || name == "_" {
			return
		}
		ts := types.TypeString(t, nil)
		k := fmt.Sprintf("%s|%s|%d", name, ts, pos)
		if seen[k] {
			return
		}
		seen[k] = true
		items = append(items, item{localEntry{name, ts}, pos, len(items)})
	}
	for _, p := range fn.Params {
		add(p.Name(), p.Type(), p.Pos())
	}
	for _, fv := range fn.FreeVars {
		add(fv.Name(), fv.Type().(*types.Pointer).Elem(), fv.Pos())
	}
	for _, b := range fn.Blocks {
		for _, in := range b.Instrs {
			a, ok := in.(*ssa.Alloc)
			if !ok || generatedAllocComments[a.Comment] || !token.IsIdentifier(a.Comment) {
				continue
			}
			add(a.Comment, a.Type().(*types.Pointer).Elem(), a.Pos())
		}
	}
	sort.SliceStable(items, func(i, j int) bool {
		if items[i].pos != items[j].pos {
			return items[i].pos < items[j].pos
		}
		return items[i].ord < items[j].ord
	})
	var out []localEntry
	dup := map[string]bool{}
	for _, it := range items {
		k := it.Name + "|" + it.Type
		if dup[k] {
			continue // the parameter and its spill cell, or two loop variables of one name and type
		}
		dup[k] = true
		out = append(out, it.localEntry)
	}
	return out
}

func localsFile() string { return filepath.Join(verifDir, "contracts", "locals.json") }

// cmdLocals regenerates the table from the current tree (run on the tree the contracts are written against).
func cmdLocals(args []string) int {
	table := map[string][]localEntry{}
	for _, m := range []string{"grpcgcp", "prober", "checksum"} {
		w := loadModule(m, false)
		for _, fn := range w.scopeFunctions() {
			if l := fnLocals(fn); len(l) > 0 {
				table[fnKey(fn)] = l
			}
		}
	}
	b, _ := json.MarshalIndent(table, "", " ")
	if err := os.WriteFile(localsFile(), append(b, '\n'), 0o644); err != nil {
		fmt.Fprintln(os.Stderr, err)
		return 2
	}
	fmt.Printf("wrote %s: %d functions\n", localsFile(), len(table))
	return 0
}

var baseLocals map[string][]localEntry

func loadBaseLocals() {
	baseLocals = map[string][]localEntry{}
	if b, err := os.ReadFile(localsFile()); err == nil {
		json.Unmarshal(b, &baseLocals)
	}
}

var (
	renameCache = map[*ssa.Function]map[string]string{}
	renameMu    sync.Mutex
)

// renamesFor maps the recorded names of fn's variables that the current tree no longer has to their current names.
func renamesFor(fn *ssa.Function) map[string]string {
	if fn == nil {
		return nil
	}
	renameMu.Lock()
	defer renameMu.Unlock()
	if m, ok := renameCache[fn]; ok {
		return m
	}
	m := map[string]string{}
	renameCache[fn] = m
	base := baseLocals[fnKey(fn)]
	if len(base) == 0 {
		return m
	}
	cur := fnLocals(fn)
	curNames, baseNames := map[string]bool{}, map[string]bool{}
	for _, c := range cur {
		curNames[c.Name] = true
	}
	for _, b := range base {
		baseNames[b.Name] = true
	}
	removed, added := map[string][]string{}, map[string][]string{}
	for _, b := range base {
		if !curNames[b.Name] {
			removed[b.Type] = append(removed[b.Type], b.Name)
		}
	}
	for _, c := range cur {
		if !baseNames[c.Name] {
			added[c.Type] = append(added[c.Type], c.Name)
		}
	}
	for t, rs := range removed {
		as := added[t]
		if len(as) == 0 {
			continue
		}
		for i, r := range rs {
			if _, dup := m[r]; dup {
				continue
			}
			if i < len(as) {
				m[r] = as[i]
			} else {
				m[r] = as[len(as)-1]
			}
		}
	}
	return m
}

// aliasRenamed makes the recorded names of renamed parameters of fn available next to their current names.
func aliasRenamed(vars map[string]*SV, fn *ssa.Function) {
	for old, cur := range renamesFor(fn) {
		if v, ok := vars[cur]; ok {
			if _, taken := vars[old]; !taken {
				vars[old] = v
			}
		}
	}
}

// renamedLocal returns the current name of the variable that the recorded tree called name in fx's function, or "".
func (fx *FnExec) renamedLocal(name string) string {
	if fx == nil || fx.fn == nil {
		return ""
	}
	return renamesFor(fx.fn)[name]
}
