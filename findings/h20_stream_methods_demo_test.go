package grpcgcp

// Demonstration for finding H20 (C12/C05: "no method of the returned stream panics whenever it is called").
// Copy into /repo/grpcgcp and run   go test -vet=off -count=1 -run TestDemoH20 .
// Before the fix Header/Trailer/CloseSend/Context were promoted from the embedded ClientStream, which is nil until
// the first SendMsg has created it: each of them panicked with a nil dereference.

import (
	"context"
	"testing"

	"google.golang.org/grpc"
)

func TestDemoH20StreamMethodsBeforeFirstSend(t *testing.T) {
	ctx, cancel := context.WithCancel(context.Background())
	streamer := func(ctx context.Context, desc *grpc.StreamDesc, cc *grpc.ClientConn, method string, opts ...grpc.CallOption) (grpc.ClientStream, error) {
		return nil, nil
	}
	cs, err := GCPStreamClientInterceptor(ctx, &grpc.StreamDesc{}, nil, "/svc/method", streamer)
	if err != nil {
		t.Fatal(err)
	}
	try := func(name string, f func()) {
		defer func() {
			if r := recover(); r != nil {
				t.Errorf("%s panicked before the first SendMsg: %v", name, r)
			}
		}()
		f()
	}
	try("Context", func() {
		if cs.Context() == nil {
			t.Errorf("Context() returned nil")
		}
	})
	try("Trailer", func() { cs.Trailer() })
	try("CloseSend", func() { cs.CloseSend() })
	cancel() // Header waits for the stream or for the end of the context
	try("Header", func() { cs.Header() })
}
