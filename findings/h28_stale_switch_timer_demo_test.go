package multiendpoint

// Demonstration for finding H28 (C14: a recovering current endpoint stays current unless a higher-priority endpoint is
// available; after all timers fired Current() is the highest-priority available endpoint).
// Copy into /repo/grpcgcp/multiendpoint (uses the fake clock of multiendpoint_test.go) and run
//   go test -vet=off -count=1 -run TestDemoH28 ./multiendpoint
// A delayed switch scheduled before a reordering of the list fires while the (new top-priority) current endpoint is
// recovering: it moves Current() to a lower-priority endpoint although a better one is available, and no timer is left.

import (
	"testing"
	"time"
)

func TestDemoH28StaleDelayedSwitchLeavesRecoveringCurrent(t *testing.T) {
	recovery, delay := 10*time.Second, 2*time.Second
	me := initWithDelays(t, []string{"x", "c"}, recovery, delay)
	advanceTime(t, recovery+time.Second)  // the initial recovery windows are over: everything is unavailable
	me.SetEndpointAvailability("c", true) // current = c (only available one)
	advanceTime(t, delay)
	if got := me.Current(); got != "c" {
		t.Fatalf("setup: current = %q, want c", got)
	}
	me.SetEndpointAvailability("x", true) // x has higher priority: delayed switch to x scheduled
	// before the delay elapses the list is reordered: c is now top priority, y is new, x is last
	me.SetEndpoints([]string{"c", "y", "x"})
	me.SetEndpointAvailability("y", true)
	me.SetEndpointAvailability("c", false) // c starts recovering; y (lower priority than c) is available: c must stay
	if got := me.Current(); got != "c" {
		t.Fatalf("current = %q right after c started recovering, want c", got)
	}
	advanceTime(t, delay) // the stale switch timer fires inside c's recovery window
	if got := me.Current(); got != "c" {
		t.Errorf("current = %q after the stale switch timer fired; c is still recovering and no higher-priority endpoint is available", got)
	}
	advanceTime(t, recovery+delay+time.Second) // everything that was pending has fired
	if got := me.Current(); got != "y" {
		t.Errorf("after all timers fired current = %q, want y (the highest-priority available endpoint)", got)
	}
}
