package grpcgcp

import (
	"context"
	"sync/atomic"
	"testing"

	"github.com/GoogleCloudPlatform/grpc-gcp-go/grpcgcp/mocks"
	"github.com/golang/mock/gomock"
	"google.golang.org/grpc/balancer"
	"google.golang.org/grpc/connectivity"
	"google.golang.org/grpc/resolver"

	pb "github.com/GoogleCloudPlatform/grpc-gcp-go/grpcgcp/grpc_gcp"
)

// Demonstration for finding H27 (C01: a key carried by a successful BIND is bound to the channel the call ran on,
// also across a connection refresh). Copy into /repo/grpcgcp and run  go test -vet=off -count=1 -run TestDemoH27 .
// The completion callback executed  p.gb.bindSubConn(bk, p.gb.currentSubConn(scRef)) : two critical sections.
// The test plays the callback's two steps by hand with the refresh swap of the channel between them.
// A BIND call is in flight on channel A when channel A is transparently refreshed
// (its SubConn is replaced by a fresh one). The BIND then completes successfully
// with key K in the response. K must be bound to channel A (now served by the fresh
// SubConn) and BOUND calls for K must be placed there regardless of load.
func TestDemoH27BindRacesWithRefreshSwap(t *testing.T) {
	mockCtrl := gomock.NewController(t)
	defer mockCtrl.Finish()

	scs := []*mocks.MockSubConn{}
	mockCC := mocks.NewMockClientConn(mockCtrl)
	mockCC.EXPECT().UpdateState(gomock.Any()).AnyTimes()
	mockCC.EXPECT().RemoveSubConn(gomock.Any()).AnyTimes()
	mockCC.EXPECT().NewSubConn(gomock.Any(), gomock.Any()).DoAndReturn(func(_, _ interface{}) (*mocks.MockSubConn, error) {
		sc := mocks.NewMockSubConn(mockCtrl)
		sc.EXPECT().Connect().AnyTimes()
		sc.EXPECT().UpdateAddresses(gomock.Any()).AnyTimes()
		scs = append(scs, sc)
		return sc, nil
	}).AnyTimes()

	const bindM, boundM = "bindMethod", "boundMethod"
	b := newBuilder().Build(mockCC, balancer.BuildOptions{}).(*gcpBalancer)
	b.UpdateClientConnState(balancer.ClientConnState{
		ResolverState: resolver.State{},
		BalancerConfig: &GCPBalancerConfig{
			ApiConfig: &pb.ApiConfig{
				ChannelPool: &pb.ChannelPoolConfig{
					MinSize:                          2,
					MaxSize:                          2,
					MaxConcurrentStreamsLowWatermark: 100,
				},
				Method: []*pb.MethodConfig{
					{Name: []string{bindM}, Affinity: &pb.AffinityConfig{Command: pb.AffinityConfig_BIND, AffinityKey: "key"}},
					{Name: []string{boundM}, Affinity: &pb.AffinityConfig{Command: pb.AffinityConfig_BOUND, AffinityKey: "key"}},
				},
			},
		},
	})
	if len(scs) != 2 {
		t.Fatalf("want 2 subconns, got %d", len(scs))
	}
	b.UpdateSubConnState(scs[0], balancer.SubConnState{ConnectivityState: connectivity.Ready})
	b.UpdateSubConnState(scs[1], balancer.SubConnState{ConnectivityState: connectivity.Ready})
	refA := b.scRefs[scs[0]]
	refB := b.scRefs[scs[1]]

	// Channel B is busier, so the BIND call goes to channel A.
	atomic.StoreInt32(&refB.streamsCnt, 3)
	bindCtx := &gcpContext{reqMsg: &testMsg{}}
	pr, err := b.picker.Pick(balancer.PickInfo{FullMethodName: bindM, Ctx: context.WithValue(context.Background(), gcpKey, bindCtx)})
	if err != nil || pr.SubConn != scs[0] {
		t.Fatalf("BIND pick: got %v, %v; want channel A (%v)", pr.SubConn, err, scs[0])
	}

	// The BIND call completes successfully, the response carries key K. The callback's first step:
	const K = "the-key"
	scSeen := b.currentSubConn(refA)

	// ... the refresh of channel A concludes between the two steps ...
	b.refresh(refA)
	b.UpdateSubConnState(scs[2], balancer.SubConnState{ConnectivityState: connectivity.Ready})
	if refA.subConn != scs[2] {
		t.Fatalf("refresh did not conclude")
	}

	// ... and the callback's second step.
	b.bindSubConn(K, scSeen)
	_ = pr
	_ = bindCtx

	// Channel A is now much busier than channel B.
	atomic.StoreInt32(&refA.streamsCnt, 10)
	atomic.StoreInt32(&refB.streamsCnt, 0)

	boundCtx := &gcpContext{reqMsg: &testMsg{Key: K}}
	pr, err = b.picker.Pick(balancer.PickInfo{FullMethodName: boundM, Ctx: context.WithValue(context.Background(), gcpKey, boundCtx)})
	if err != nil || pr.SubConn != scs[2] {
		t.Fatalf("BOUND pick for %q: got %v, %v; want channel A's fresh subconn %v (channel B is %v)", K, pr.SubConn, err, scs[2], scs[1])
	}
}
