package multiendpoint

// H29 (C05, C10, C13): NewMultiEndpoint schedules the recovery timers of its endpoints (newEndpoint ->
// scheduleUnavailable -> timeAfterFunc) before the object is complete and without holding its lock. A timer that fires
// before the constructor returns runs its callback on the half-built object: me.endpoints is still nil, so
// maybeUpdateCurrent dereferences a nil `top` (a panic in a timer goroutine terminates the process), while the
// constructor keeps writing e.futureChange and me.endpoints without the lock (data race).
//
// Place this file in grpcgcp/multiendpoint and run
//   go test -vet=off -count=1 -run TestZZH29 ./multiendpoint
// Both tests fail before fix commit and pass after it.

import (
	"fmt"
	"sync/atomic"
	"testing"
	"time"
)

// Real timers (the production default of the timeAfterFunc hook; the package's tests replace it by a fake clock in an
// init function, so it is restored here), a short recovery timeout and a long endpoint list.
func TestZZH29ConstructorTimerReal(t *testing.T) {
	var eps []string
	for i := 0; i < 300000; i++ {
		eps = append(eps, fmt.Sprintf("endpoint-%d", i))
	}
	old := timeAfterFunc
	defer func() { timeAfterFunc = old }()
	var early, panicked int64
	var done int32
	timeAfterFunc = func(d time.Duration, f func()) timerAlike {
		return time.AfterFunc(d, func() {
			if atomic.LoadInt32(&done) == 0 {
				atomic.AddInt64(&early, 1)
			}
			defer func() {
				if r := recover(); r != nil {
					atomic.AddInt64(&panicked, 1)
				}
			}()
			f()
		})
	}
	_, err := NewMultiEndpoint(&MultiEndpointOptions{Endpoints: eps, RecoveryTimeout: time.Nanosecond})
	atomic.StoreInt32(&done, 1)
	if err != nil {
		t.Fatal(err)
	}
	time.Sleep(200 * time.Millisecond)
	t.Logf("timer callbacks started before the constructor returned: %d", atomic.LoadInt64(&early))
	if n := atomic.LoadInt64(&panicked); n > 0 {
		t.Errorf("%d timer callbacks panicked on the half-built MultiEndpoint", n)
	}
}

// The same schedule made deterministic: the timer goroutine runs to completion between the call that scheduled it and
// the constructor's next statement (a schedule real timers permit).
func TestZZH29ConstructorTimerHook(t *testing.T) {
	old := timeAfterFunc
	defer func() { timeAfterFunc = old }()
	timeAfterFunc = func(d time.Duration, f func()) timerAlike {
		finished := make(chan struct{})
		go func() {
			defer close(finished)
			defer func() {
				if r := recover(); r != nil {
					t.Errorf("timer callback panicked on the half-built MultiEndpoint: %v", r)
				}
			}()
			f()
		}()
		select {
		case <-finished:
		case <-time.After(100 * time.Millisecond): // after the fix the callback waits for the constructor's lock
		}
		return time.NewTimer(time.Hour)
	}
	if _, err := NewMultiEndpoint(&MultiEndpointOptions{Endpoints: []string{"a", "b"}, RecoveryTimeout: time.Second}); err != nil {
		t.Fatal(err)
	}
	time.Sleep(50 * time.Millisecond)
}
