package grpcgcp

// Demonstration for finding H21 (C12: "RecvMsg issued before the first SendMsg ... returns when the call's context ends").
// Copy into /repo/grpcgcp and run   go test -vet=off -count=1 -run TestDemoH21 .
// Before fix (sync.Cond wait) the receiver stays blocked after the context was cancelled.

import (
	"context"
	"testing"
	"time"

	"google.golang.org/grpc"
)

func TestDemoH21RecvReturnsWhenContextEnds(t *testing.T) {
	ctx, cancel := context.WithCancel(context.Background())
	streamer := func(ctx context.Context, desc *grpc.StreamDesc, cc *grpc.ClientConn, method string, opts ...grpc.CallOption) (grpc.ClientStream, error) {
		t.Error("no stream must be created: nothing is ever sent")
		return nil, nil
	}
	cs, err := GCPStreamClientInterceptor(ctx, &grpc.StreamDesc{}, nil, "/svc/method", streamer)
	if err != nil {
		t.Fatal(err)
	}
	done := make(chan error, 1)
	go func() { done <- cs.RecvMsg(nil) }()
	time.Sleep(20 * time.Millisecond)
	cancel()
	select {
	case err := <-done:
		if err == nil {
			t.Fatalf("RecvMsg returned nil after the context ended without any stream")
		}
	case <-time.After(2 * time.Second):
		t.Fatalf("RecvMsg is still blocked 2s after the call's context ended")
	}
}
