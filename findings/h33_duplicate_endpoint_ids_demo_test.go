// Place in /tmp/seed/AU3/grpcgcp/multiendpoint/ (package multiendpoint; uses the fake clock
// helpers advanceTime/initPlain/initWithDelays of multiendpoint_test.go).
package multiendpoint

import "testing"

// C13: "if no endpoint is available Current() does not change unless the current endpoint was
// removed from the list, in which case it becomes the list's first endpoint."
func TestAuditDupRemovedCurrentBecomesListFirst(t *testing.T) {
	me := initPlain(t, []string{"x"})
	list := []string{"a", "b", "a"}
	if err := me.SetEndpoints(list); err != nil {
		t.Fatalf("SetEndpoints(%v) rejected: %v", list, err)
	}
	// Nothing is available, the current endpoint "x" was removed: the list's first endpoint is "a".
	if c, want := me.Current(), list[0]; c != want {
		t.Fatalf("after SetEndpoints(%v) with no endpoint available Current() = %q, want the list's first endpoint %q", list, c, want)
	}
}

// C13: "With no switching delay configured Current() is, after every operation, exactly: ...
// the highest-priority available endpoint" (priority = position in the list, first is top).
func TestAuditDupCtorTopPriorityAvailable(t *testing.T) {
	list := []string{"a", "b", "a"}
	me := initPlain(t, list)
	me.SetEndpointAvailability("b", true)
	if c, want := me.Current(), "b"; c != want {
		t.Fatalf("Current() = %q, want %q", c, want)
	}
	me.SetEndpointAvailability("a", true)
	// "a" is the first item of the list and available.
	if c, want := me.Current(), "a"; c != want {
		t.Fatalf("list %v, a and b available: Current() = %q, want top priority %q", list, c, want)
	}
}

// C14: "it never moves from an available endpoint to a lower-priority one" (and C13 exact formula).
func TestAuditDupMovesFromAvailableTopToLower(t *testing.T) {
	me := initPlain(t, []string{"a", "b"})
	me.SetEndpointAvailability("a", true)
	me.SetEndpointAvailability("b", true)
	if c, want := me.Current(), "a"; c != want {
		t.Fatalf("Current() = %q, want %q", c, want)
	}
	list := []string{"a", "b", "a"}
	if err := me.SetEndpoints(list); err != nil {
		t.Fatalf("SetEndpoints(%v) rejected: %v", list, err)
	}
	// "a" is still the first item of the list and still available.
	if c, want := me.Current(), "a"; c != want {
		t.Fatalf("after SetEndpoints(%v): Current() moved from available top-priority %q to %q", list, want, c)
	}
}

// Same as above with a switching delay: the move happens in the delayed-switch timer, and the
// quiescent state is not the highest-priority available endpoint (C14 convergence).
func TestAuditDupMovesFromAvailableTopToLowerDelayed(t *testing.T) {
	me := initWithDelays(t, []string{"a", "b"}, recoveryTO, switchDelay)
	me.SetEndpointAvailability("a", true)
	me.SetEndpointAvailability("b", true)
	advanceTime(t, 10*switchDelay)
	if c, want := me.Current(), "a"; c != want {
		t.Fatalf("Current() = %q, want %q", c, want)
	}
	list := []string{"a", "b", "a"}
	if err := me.SetEndpoints(list); err != nil {
		t.Fatalf("SetEndpoints(%v) rejected: %v", list, err)
	}
	advanceTime(t, 10*switchDelay) // all pending timers fire
	if c, want := me.Current(), "a"; c != want {
		t.Fatalf("after SetEndpoints(%v) and all timers: Current() = %q, want available list-first %q", list, c, want)
	}
}
