package prober

import (
	"testing"
	"time"
)

// H35 (C18): before the fix backoff(-(2^53+1), 0, 0) = -2^53 > backoff(-(2^53+1), 0, 1) = -(2^53+1).
func TestZZH35BackoffMonotoneForNegativeBase(t *testing.T) {
	b := -time.Duration(1<<53 + 1)
	d0, d1 := backoff(b, 0, 0), backoff(b, 0, 1)
	if d0 > d1 {
		t.Errorf("backoff(%d, 0, 0) = %d > backoff(%d, 0, 1) = %d", b, d0, b, d1)
	}
}
