package grpcgcp

// H34 (C15): a monitor goroutine of a pool that is no longer the registered pool of its endpoint (the endpoint was
// removed and added again, or its pool was rolled back by a rejected update and dialled again) can still deliver a
// report: monitoredConn.notify names the endpoint, not the pool. A late report of the old pool then makes every
// MultiEndpoint believe the *new* pool has that connectivity, and nothing corrects it while the new pool's state does
// not change.
//
// The test delivers the late report directly (the goroutine of the old pool would do the same after reading a state
// and before noticing its cancellation). Place this file in grpcgcp/ and run
//   go test -vet=off -count=1 -run TestZZH34 .

import (
	"testing"

	"google.golang.org/grpc"
	"google.golang.org/grpc/connectivity"
	"google.golang.org/grpc/credentials/insecure"

	"github.com/GoogleCloudPlatform/grpc-gcp-go/grpcgcp/multiendpoint"
)

func TestZZH34StaleMonitorReport(t *testing.T) {
	opts := func(eps ...string) *GCPMultiEndpointOptions {
		return &GCPMultiEndpointOptions{
			MultiEndpoints: map[string]*multiendpoint.MultiEndpointOptions{"default": {Endpoints: eps}},
			Default:        "default",
		}
	}
	// Nothing listens on these addresses: no pool ever becomes READY.
	gme, err := NewGCPMultiEndpoint(opts("127.0.0.1:1", "127.0.0.1:2"), grpc.WithTransportCredentials(insecure.NewCredentials()))
	if err != nil {
		t.Fatal(err)
	}
	defer gme.Close()
	gme.mu.RLock()
	old := gme.pools["127.0.0.1:2"]
	gme.mu.RUnlock()

	if err := gme.UpdateMultiEndpoints(opts("127.0.0.1:1")); err != nil { // removes the pool of :2
		t.Fatal(err)
	}
	if err := gme.UpdateMultiEndpoints(opts("127.0.0.1:1", "127.0.0.1:2")); err != nil { // dials a new pool for :2
		t.Fatal(err)
	}
	gme.mu.RLock()
	cur := gme.pools["127.0.0.1:2"]
	me := gme.mes["default"]
	gme.mu.RUnlock()
	if cur == old {
		t.Fatal("expected a new pool for the re-added endpoint")
	}
	if got := me.Current(); got != "127.0.0.1:1" {
		t.Fatalf("before the late report Current() = %q", got)
	}

	old.notify(connectivity.Ready) // the late report of the pool that was removed

	if got := me.Current(); got != "127.0.0.1:1" {
		t.Errorf("a report of a removed pool changed routing: Current() = %q although the registered pool of that endpoint is %v", got, cur.conn.GetState())
	}
}
