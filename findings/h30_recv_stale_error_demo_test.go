package grpcgcp

import (
	"context"
	"errors"
	"testing"

	"github.com/GoogleCloudPlatform/grpc-gcp-go/grpcgcp/mocks"
	"github.com/golang/mock/gomock"
	"google.golang.org/grpc"
)

// C12: "Once created, every send/receive reaches the underlying stream unchanged and in
// order" / "RecvMsg ... blocks until the underlying stream exists and then delegates to it".
//
// Scenario: the first SendMsg fails to create the underlying stream (e.g. the pick failed
// with a transient error). The caller retries SendMsg, which is allowed ("never creates a
// second one after a success") and this time the stream is created. From now on the
// underlying stream exists, SendMsg and Header reach it, but RecvMsg keeps returning the
// stale creation error of the first attempt forever and never reaches the stream.
func TestAuditRecvMsgAfterCreationRetry(t *testing.T) {
	mockCtrl := gomock.NewController(t)
	defer mockCtrl.Finish()

	creationErr := errors.New("transient creation failure")
	mockCS := mocks.NewMockClientStream(mockCtrl)
	mockCS.EXPECT().SendMsg(gomock.Any()).Return(nil).AnyTimes()
	mockCS.EXPECT().Header().Return(nil, nil).AnyTimes()
	recvReached := 0
	mockCS.EXPECT().RecvMsg(gomock.Any()).DoAndReturn(func(interface{}) error {
		recvReached++
		return nil
	}).AnyTimes()

	attempts := 0
	streamer := func(ctx context.Context, desc *grpc.StreamDesc, cc *grpc.ClientConn, method string, opts ...grpc.CallOption) (grpc.ClientStream, error) {
		attempts++
		if attempts == 1 {
			return nil, creationErr
		}
		return mockCS, nil
	}

	cs, err := GCPStreamClientInterceptor(context.Background(), &grpc.StreamDesc{}, &grpc.ClientConn{}, "m", streamer)
	if err != nil {
		t.Fatal(err)
	}
	if err := cs.SendMsg("req"); err != creationErr {
		t.Fatalf("first SendMsg returned %v, want the creation error", err)
	}
	if err := cs.SendMsg("req"); err != nil {
		t.Fatalf("second SendMsg returned %v, want nil (stream created on retry)", err)
	}
	if attempts != 2 {
		t.Fatalf("streamer called %d times, want 2", attempts)
	}
	// The underlying stream exists now: Header reaches it ...
	if _, err := cs.Header(); err != nil {
		t.Fatalf("Header returned %v, want nil", err)
	}
	// ... and so must RecvMsg.
	var reply fakeResp
	if err := cs.RecvMsg(&reply); err != nil {
		t.Errorf("RecvMsg after successful creation returned %v, want nil", err)
	}
	if recvReached != 1 {
		t.Errorf("RecvMsg reached the underlying stream %d times, want 1", recvReached)
	}
}
