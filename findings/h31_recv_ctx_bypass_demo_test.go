package grpcgcp

import (
	"context"
	"testing"

	"github.com/GoogleCloudPlatform/grpc-gcp-go/grpcgcp/mocks"
	"github.com/golang/mock/gomock"
	"google.golang.org/grpc"
	"google.golang.org/grpc/codes"
	"google.golang.org/grpc/status"
)

// C12: "Once created, every send/receive reaches the underlying stream unchanged and in order".
//
// Scenario: the stream was created by a successful first SendMsg; later the call's context
// ends (cancel or deadline). RecvMsg and Header issued after that select between the closed
// ready channel and the closed ctx.Done() channel; Go picks a ready case at random, so about
// half of the calls return the bare ctx.Err() without ever reaching the underlying stream:
// buffered replies / the final status (io.EOF, the server's status, or a status error with
// codes.Canceled) of the real stream are replaced by a non-status error.
func TestAuditRecvMsgAfterContextEndBypassesStream(t *testing.T) {
	mockCtrl := gomock.NewController(t)
	defer mockCtrl.Finish()

	streamErr := status.Error(codes.Canceled, "context canceled")
	recvReached, headerReached := 0, 0
	mockCS := mocks.NewMockClientStream(mockCtrl)
	mockCS.EXPECT().SendMsg(gomock.Any()).Return(nil).AnyTimes()
	mockCS.EXPECT().RecvMsg(gomock.Any()).DoAndReturn(func(interface{}) error {
		recvReached++
		return streamErr
	}).AnyTimes()
	mockCS.EXPECT().Header().DoAndReturn(func() (interface{}, error) {
		headerReached++
		return nil, streamErr
	}).AnyTimes()

	streamer := func(ctx context.Context, desc *grpc.StreamDesc, cc *grpc.ClientConn, method string, opts ...grpc.CallOption) (grpc.ClientStream, error) {
		return mockCS, nil
	}

	ctx, cancel := context.WithCancel(context.Background())
	cs, err := GCPStreamClientInterceptor(ctx, &grpc.StreamDesc{}, &grpc.ClientConn{}, "m", streamer)
	if err != nil {
		t.Fatal(err)
	}
	if err := cs.SendMsg("req"); err != nil {
		t.Fatalf("SendMsg returned %v, want nil", err)
	}
	cancel()

	const n = 64
	bypassedRecv, bypassedHeader := 0, 0
	for i := 0; i < n; i++ {
		var reply fakeResp
		if err := cs.RecvMsg(&reply); err != streamErr {
			bypassedRecv++
			if bypassedRecv == 1 {
				t.Logf("RecvMsg returned %v (code %v) instead of the underlying stream's %v", err, status.Code(err), streamErr)
			}
		}
		if _, err := cs.Header(); err != streamErr {
			bypassedHeader++
		}
	}
	if recvReached != n {
		t.Errorf("%d of %d RecvMsg calls issued after the stream was created reached the underlying stream (%d bypassed it)", recvReached, n, bypassedRecv)
	}
	if headerReached != n {
		t.Errorf("%d of %d Header calls issued after the stream was created reached the underlying stream (%d bypassed it)", headerReached, n, bypassedHeader)
	}
}
