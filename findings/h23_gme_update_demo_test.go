package grpcgcp

// Demonstration for finding H23 (C16: bad updates are rejected atomically, a failed construction leaves nothing behind).
// Copy into /repo/grpcgcp and run   go test -vet=off -count=1 -run TestDemoH23 .

import (
	"context"
	"errors"
	"testing"

	"github.com/GoogleCloudPlatform/grpc-gcp-go/grpcgcp/multiendpoint"
	"google.golang.org/grpc"
	"google.golang.org/grpc/connectivity"
	"google.golang.org/grpc/credentials/insecure"

	pb "github.com/GoogleCloudPlatform/grpc-gcp-go/grpcgcp/grpc_gcp"
)

// A dial failure in the constructor: the pools dialed before the failure must not stay open.
func TestDemoH23ConstructorLeak(t *testing.T) {
	var conns []*grpc.ClientConn
	dial := func(_ context.Context, target string, o ...grpc.DialOption) (*grpc.ClientConn, error) {
		if len(conns) == 1 {
			return nil, errors.New("dial failed")
		}
		c, err := grpc.Dial(target, o...)
		if err == nil {
			conns = append(conns, c)
		}
		return c, err
	}
	_, err := NewGCPMultiEndpoint(&GCPMultiEndpointOptions{
		GRPCgcpConfig: &pb.ApiConfig{},
		MultiEndpoints: map[string]*multiendpoint.MultiEndpointOptions{
			"default": {Endpoints: []string{"localhost:1", "localhost:2"}},
		},
		Default:  "default",
		DialFunc: dial,
	}, grpc.WithTransportCredentials(insecure.NewCredentials()))
	if err == nil {
		t.Fatal("want an error")
	}
	for _, c := range conns {
		if c.GetState() != connectivity.Shutdown {
			t.Errorf("failed construction left a connection in state %v", c.GetState())
		}
	}
}

// A rejected update must leave the routing as it was; an empty endpoint list must be rejected.
func TestDemoH23PartialUpdate(t *testing.T) {
	opts := &GCPMultiEndpointOptions{
		GRPCgcpConfig: &pb.ApiConfig{},
		MultiEndpoints: map[string]*multiendpoint.MultiEndpointOptions{
			"default": {Endpoints: []string{"localhost:1"}},
		},
		Default: "default",
	}
	gme, err := NewGCPMultiEndpoint(opts, grpc.WithTransportCredentials(insecure.NewCredentials()))
	if err != nil {
		t.Fatal(err)
	}
	defer gme.Close()
	before := gme.pickConn(context.Background())
	// an existing MultiEndpoint gets an empty list: invalid options
	if err := gme.UpdateMultiEndpoints(&GCPMultiEndpointOptions{
		MultiEndpoints: map[string]*multiendpoint.MultiEndpointOptions{"default": {Endpoints: nil}},
		Default:        "default",
	}); err == nil {
		t.Errorf("update with an empty endpoint list was accepted")
	}
	// "default" moves to another endpoint and a new MultiEndpoint is invalid: the update fails ...
	for i := 0; i < 20; i++ { // map iteration order decides whether "default" is handled first
		err = gme.UpdateMultiEndpoints(&GCPMultiEndpointOptions{
			MultiEndpoints: map[string]*multiendpoint.MultiEndpointOptions{
				"default": {Endpoints: []string{"localhost:2"}},
				"other":   {Endpoints: nil},
			},
			Default: "default",
		})
		if err == nil {
			t.Fatalf("update with an empty endpoint list was accepted")
		}
		// ... and must not have changed the routing
		if after := gme.pickConn(context.Background()); after != before {
			t.Fatalf("a rejected update changed the routing of the default MultiEndpoint (%v -> %v)", before.Target(), after.Target())
		}
	}
}
