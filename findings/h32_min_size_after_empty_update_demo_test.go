package grpcgcp

// Audit finding 1 (C03): the pool is not brought to minSize when the first resolver
// update carried an empty address list.
//
// Place this file in grpcgcp/ (package grpcgcp).

import (
	"context"
	"encoding/json"
	"errors"
	"fmt"
	"sync"
	"testing"
	"time"

	"google.golang.org/grpc"
	"google.golang.org/grpc/balancer"
	"google.golang.org/grpc/resolver"
	"google.golang.org/grpc/resolver/manual"
	"google.golang.org/grpc/serviceconfig"

	pb "github.com/GoogleCloudPlatform/grpc-gcp-go/grpcgcp/grpc_gcp"
)

// audit1SubConn is a do-nothing SubConn.
type audit1SubConn struct {
	balancer.SubConn
	mu    sync.Mutex
	addrs []resolver.Address
}

func (sc *audit1SubConn) UpdateAddresses(a []resolver.Address) {
	sc.mu.Lock()
	sc.addrs = a
	sc.mu.Unlock()
}
func (sc *audit1SubConn) Connect() {}

// audit1CC is a fake balancer.ClientConn whose NewSubConn behaves like the one of
// grpc-go (balancer_conn_wrappers.go, ccBalancerWrapper.NewSubConn): an empty address
// list is rejected with an error.
type audit1CC struct {
	balancer.ClientConn
	created int
}

func (cc *audit1CC) NewSubConn(a []resolver.Address, _ balancer.NewSubConnOptions) (balancer.SubConn, error) {
	if len(a) == 0 {
		return nil, errors.New("grpc: cannot create SubConn with empty address list")
	}
	cc.created++
	return &audit1SubConn{addrs: a}, nil
}
func (cc *audit1CC) RemoveSubConn(balancer.SubConn)                       {}
func (cc *audit1CC) UpdateAddresses(balancer.SubConn, []resolver.Address) {}
func (cc *audit1CC) UpdateState(balancer.State)                           {}
func (cc *audit1CC) ResolveNow(resolver.ResolveNowOptions)                {}
func (cc *audit1CC) Target() string                                       { return "audit" }

// Fake ClientConn: first resolver update is empty, the second one has an address.
func TestAudit1_C03_MinSizeAfterEmptyFirstUpdate_Fake(t *testing.T) {
	const minSize = 3
	cc := &audit1CC{}
	b := newBuilder().Build(cc, balancer.BuildOptions{}).(*gcpBalancer)
	cfg := &GCPBalancerConfig{ApiConfig: &pb.ApiConfig{ChannelPool: &pb.ChannelPoolConfig{
		MinSize: minSize, MaxSize: 10, MaxConcurrentStreamsLowWatermark: 100,
	}}}

	// 1. The resolver has nothing yet (e.g. DNS returned no records).
	b.UpdateClientConnState(balancer.ClientConnState{ResolverState: resolver.State{}, BalancerConfig: cfg})
	if got := len(b.scRefs); got != 0 {
		t.Fatalf("pool size after an empty update = %d, want 0", got)
	}

	// 2. First resolver update with a non-empty address list.
	b.UpdateClientConnState(balancer.ClientConnState{
		ResolverState:  resolver.State{Addresses: []resolver.Address{{Addr: "10.0.0.1:443"}}},
		BalancerConfig: cfg,
	})
	if got := len(b.scRefs); got != minSize {
		t.Errorf("C03: pool size after the first non-empty resolver update = %d, want exactly minSize = %d", got, minSize)
	}

	// 3. It is not repaired by later updates either.
	for i := 0; i < 3; i++ {
		b.UpdateClientConnState(balancer.ClientConnState{
			ResolverState:  resolver.State{Addresses: []resolver.Address{{Addr: "10.0.0.1:443"}, {Addr: "10.0.0.2:443"}}},
			BalancerConfig: cfg,
		})
	}
	if got := len(b.scRefs); got != minSize {
		t.Errorf("C03: pool size after three more resolver updates = %d, want minSize = %d", got, minSize)
	}
}

// The same with a real grpc.ClientConn and a manual resolver (nothing is dialled: the
// address is never connected to within the test, we only count the SubConns).
type audit1Builder struct {
	real *gcpBalancerBuilder
	mu   sync.Mutex
	last *gcpBalancer
}

func (ab *audit1Builder) Build(cc balancer.ClientConn, opt balancer.BuildOptions) balancer.Balancer {
	b := ab.real.Build(cc, opt).(*gcpBalancer)
	ab.mu.Lock()
	ab.last = b
	ab.mu.Unlock()
	return b
}
func (ab *audit1Builder) Name() string { return "audit1_grpc_gcp" }
func (ab *audit1Builder) ParseConfig(j json.RawMessage) (serviceconfig.LoadBalancingConfig, error) {
	return ab.real.ParseConfig(j)
}

func TestAudit1_C03_MinSizeAfterEmptyFirstUpdate_RealClientConn(t *testing.T) {
	const minSize = 3
	ab := &audit1Builder{real: newBuilder().(*gcpBalancerBuilder)}
	balancer.Register(ab)

	r := manual.NewBuilderWithScheme("audit1")
	r.InitialState(resolver.State{}) // the resolver's first result is empty

	conn, err := grpc.Dial(
		"audit1:///svc",
		grpc.WithInsecure(),
		grpc.WithResolvers(r),
		grpc.WithDisableServiceConfig(),
		grpc.WithDefaultServiceConfig(fmt.Sprintf(
			`{"loadBalancingConfig":[{"%s":{"channelPool":{"minSize":%d,"maxSize":10,"maxConcurrentStreamsLowWatermark":100}}}]}`,
			ab.Name(), minSize)),
	)
	if err != nil {
		t.Fatalf("Dial: %v", err)
	}
	defer conn.Close()

	getB := func() *gcpBalancer {
		ab.mu.Lock()
		defer ab.mu.Unlock()
		return ab.last
	}
	deadline := time.Now().Add(5 * time.Second)
	for getB() == nil && time.Now().Before(deadline) {
		time.Sleep(10 * time.Millisecond)
	}
	b := getB()
	if b == nil {
		t.Fatalf("balancer was not built")
	}
	// Wait until the (empty) first update has been delivered.
	for time.Now().Before(deadline) {
		b.mu.Lock()
		done := b.cfg != nil
		b.mu.Unlock()
		if done {
			break
		}
		time.Sleep(10 * time.Millisecond)
	}
	if got := b.getConnectionPoolSize(); got != 0 {
		t.Fatalf("pool size after the empty update = %d, want 0 (grpc rejects NewSubConn with no addresses)", got)
	}

	// First non-empty resolver result. 192.0.2.1 is TEST-NET-1; nothing needs to answer.
	r.UpdateState(resolver.State{Addresses: []resolver.Address{{Addr: "192.0.2.1:1"}}})
	// UpdateState is synchronous up to the balancer, but poll a little anyway.
	ctx, cancel := context.WithTimeout(context.Background(), 2*time.Second)
	defer cancel()
	for b.getConnectionPoolSize() == 0 && ctx.Err() == nil {
		time.Sleep(10 * time.Millisecond)
	}
	time.Sleep(100 * time.Millisecond)
	if got := b.getConnectionPoolSize(); got != minSize {
		t.Errorf("C03: pool size after the first non-empty resolver update = %d, want exactly minSize = %d", got, minSize)
	}
}
