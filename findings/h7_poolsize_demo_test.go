package grpcgcp

// Demonstration for finding H7 (C03: the pool never exceeds maxSize). Copy into /repo/grpcgcp and run
//   go test -vet=off -count=1 -run TestDemoH7 .
// Thread A executes the two statements of getLeastBusySubConnRef
//     if ... p.gb.getConnectionPoolSize() < maxSize { p.gb.newSubConn() }
// and is preempted between them; thread B's pick grows the pool and the new connection becomes READY.

import (
	"context"
	"testing"

	"github.com/GoogleCloudPlatform/grpc-gcp-go/grpcgcp/mocks"
	"github.com/golang/mock/gomock"
	"google.golang.org/grpc/balancer"
	"google.golang.org/grpc/connectivity"
	"google.golang.org/grpc/resolver"

	pb "github.com/GoogleCloudPlatform/grpc-gcp-go/grpcgcp/grpc_gcp"
)

func TestDemoH7(t *testing.T) {
	mockCtrl := gomock.NewController(t)
	defer mockCtrl.Finish()
	mockCC := mocks.NewMockClientConn(mockCtrl)
	newSCs := []*mocks.MockSubConn{}
	mockCC.EXPECT().UpdateState(gomock.Any()).AnyTimes()
	mockCC.EXPECT().NewSubConn(gomock.Any(), gomock.Any()).DoAndReturn(func(_, _ interface{}) (*mocks.MockSubConn, error) {
		newSC := mocks.NewMockSubConn(mockCtrl)
		newSC.EXPECT().Connect().AnyTimes()
		newSC.EXPECT().UpdateAddresses(gomock.Any()).AnyTimes()
		newSCs = append(newSCs, newSC)
		return newSC, nil
	}).AnyTimes()
	b := newBuilder().Build(mockCC, balancer.BuildOptions{}).(*gcpBalancer)
	maxSize := 2
	b.UpdateClientConnState(balancer.ClientConnState{
		ResolverState: resolver.State{},
		BalancerConfig: &GCPBalancerConfig{ApiConfig: &pb.ApiConfig{ChannelPool: &pb.ChannelPoolConfig{
			MinSize: 1, MaxSize: uint32(maxSize), MaxConcurrentStreamsLowWatermark: 1}}},
	})
	b.UpdateSubConnState(newSCs[0], balancer.SubConnState{ConnectivityState: connectivity.Ready})
	// saturate the only channel
	if _, err := b.picker.Pick(balancer.PickInfo{Ctx: context.TODO()}); err != nil {
		t.Fatal(err)
	}
	// thread A: first statement (size 1 < maxSize 2)
	sizeSeenByA := b.getConnectionPoolSize()
	// thread B: a complete pick; the pool grows to 2 and the new connection becomes READY
	b.picker.Pick(balancer.PickInfo{Ctx: context.TODO()})
	b.UpdateSubConnState(newSCs[1], balancer.SubConnState{ConnectivityState: connectivity.Connecting})
	b.UpdateSubConnState(newSCs[1], balancer.SubConnState{ConnectivityState: connectivity.Ready})
	// thread A: second statement
	if sizeSeenByA < maxSize {
		b.newSubConn()
	}
	if got := b.getConnectionPoolSize(); got > maxSize {
		t.Fatalf("pool has %d channels, maxSize is %d", got, maxSize)
	}
}
