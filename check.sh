#!/bin/bash
# usage: check.sh <property id> <quick|thorough>
# Reads /repo's current working tree on every run (go/packages + go/ssa inside gocv); rebuilds gocv when its sources changed.
# quick:    every obligation of the property, 20 s per obligation (80 s for floating-point and regular-language goals), first decisive solver.
# thorough: the same obligations with 60 s per obligation and every solver run on every obligation (they must agree),
#           and afterwards the must-fail corpus of the property: each seeded change
#           under /verif/seeded/<id>-*/ is applied to a scratch copy of the current tree and must be reported
#           (result recorded in the evidence file under coverage.selftest; a missed seed is not a property violation),
#           and the conformance suite of the verifier itself (gocv selftest).
export GOFLAGS=-mod=mod GOPROXY=off GOSUMDB=off GOTOOLCHAIN=local
cd /verif
if [ ! -x /verif/bin/gocv ] || [ -n "$(find /verif/gocv -name '*.go' -newer /verif/bin/gocv 2>/dev/null | head -1)" ]; then
  (cd /verif/gocv && go build -o /verif/bin/gocv .) || { echo "cannot build gocv"; exit 2; }
fi
tier="${2:-quick}"
if [ "$tier" != thorough ]; then
  exec /verif/bin/gocv check -prop "$1" -tier "$tier"
fi
/verif/bin/gocv check -prop "$1" -tier thorough; rc=$?
# conformance suite of the verifier itself (81 small functions, one language or contract feature each; see selftest/engine)
eng=$(/verif/bin/gocv selftest 2>&1 | grep -E "^MISMATCH|^selftest:" | sed 's/^/engine-selftest: /')
echo "$eng"
if ls -d /verif/seeded/$1-*/ >/dev/null 2>&1; then
  st=$(/verif/tools/selftest_seeds.sh "$1-*" 2>&1 | sed 's/^/selftest: /')
  echo "$st"
  python3 - "$1" "$st" "$eng" <<'PY'
import json,sys
p='/verif/evidence/%s.json'%sys.argv[1]
try:
    ev=json.load(open(p))
    lines=[l for l in sys.argv[2].split('\n') if l.strip()]
    ev.setdefault('coverage',{})['engine_selftest']=sys.argv[3] if len(sys.argv)>3 else ''
    ev.setdefault('coverage',{})['selftest']={'seeded_changes':len(lines),'detected':sum('detected' in l for l in lines),'missed':[l for l in lines if 'MISSED' in l],'skipped':sum('skipped' in l for l in lines)}
    json.dump(ev,open(p,'w'),indent=1)
except Exception as e:
    print('selftest: evidence not updated:',e)
PY
fi
exit $rc
