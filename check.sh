#!/bin/bash
# usage: check.sh <property id> <quick|thorough>
# Rebuilds nothing but reads /repo's current working tree on every run (go/packages + go/ssa inside gocv).
export GOFLAGS=-mod=mod GOPROXY=off GOSUMDB=off GOTOOLCHAIN=local
cd /verif
if [ ! -x /verif/bin/gocv ] || [ -n "$(find /verif/gocv -name '*.go' -newer /verif/bin/gocv 2>/dev/null | head -1)" ]; then
  (cd /verif/gocv && go build -o /verif/bin/gocv .) || { echo "cannot build gocv"; exit 2; }
fi
exec /verif/bin/gocv check -prop "$1" -tier "${2:-quick}"
